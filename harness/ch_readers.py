"""CrossHair contract module: the real reader classes of yaw.catalog.readers driven through their real constructors and
iteration protocol over recording fake sources.  Rows are represented by their index; DataChunk.create is replaced by a
recorder (chunk creation itself is analysed symbolically in checks/C02.py).

Every public function below carries PEP316 pre/post-conditions; functions named twin_* are reachability/sensitivity twins
whose post-condition is deliberately wrong and MUST be refuted.
"""
from typing import List, Tuple

import yaw.catalog.readers as R


# ---- environment stubs (each is part of the claim) ---------------------------------------------------------------
class FakeChunk:
    """DataChunk.create recorder: returns the 'ra' column (the row indices) as the chunk"""

    @staticmethod
    def create(ra, dec, degrees=True, **kw):
        assert len(ra) == len(dec)
        for v in kw.values():
            if v is not None:
                assert len(v) == len(ra)
        return None, list(ra)


R.DataChunk = FakeChunk
R.issue_io_log = lambda *a, **k: None
R.format_long_num = lambda x: "?"


class _Quiet:
    def info(self, *a, **k):
        pass

    debug = warning = error = info


R.logger = _Quiet()
# len(reader) / num_chunks is only used for logging and progress bars; np.ceil on a symbolic quotient would force
# CrossHair to realise the inputs, so the property is replaced by the equivalent integer expression (stub, stated)
R.DataChunkReader.num_chunks = property(lambda self: -(-self.num_records // self.chunksize))


class Rows:
    """array-like of row indices [lo, hi)"""

    def __init__(self, lo, hi):
        self.lo, self.hi = lo, hi

    def __len__(self):
        return self.hi - self.lo

    def __iter__(self):
        return iter(range(self.lo, self.hi))

    def to_numpy(self):
        return list(range(self.lo, self.hi))

    # FITS path: array.view(array.dtype.newbyteorder()).byteswap()
    @property
    def dtype(self):
        return self

    def newbyteorder(self):
        return self

    def view(self, dt):
        return self

    def byteswap(self):
        return list(range(self.lo, self.hi))


class Column:
    """a column of a columnar source (HDF5 dataset / FITS column): slicing is recorded"""

    def __init__(self, n, log):
        self.n, self.log = n, log

    def __len__(self):
        return self.n

    def __getitem__(self, key):
        assert isinstance(key, slice)
        start, stop, step = key.indices(self.n)
        assert step == 1
        stop = max(start, stop)
        self.log.append((start, stop))
        return Rows(start, stop)


class Frame:
    """pandas.DataFrame stand-in: row slicing is recorded; column access returns the rows of the slice"""

    def __init__(self, n, log, lo=0):
        self.n, self.log, self.lo = n, log, lo

    def __len__(self):
        return self.n

    def __getitem__(self, key):
        if isinstance(key, slice):
            start, stop, step = key.indices(self.n)
            assert step == 1
            stop = max(start, stop)
            self.log.append((self.lo + start, self.lo + stop))
            return Frame(stop - start, self.log, self.lo + start)
        return Rows(self.lo, self.lo + self.n)


class FakeH5File(dict):
    def close(self):
        self["closed"] = True


class FakeH5:
    def __init__(self, n, log):
        self.n, self.log = n, log
        self.opened = []

    def File(self, path, mode="r"):
        f = FakeH5File()
        for c in ("a", "b", "w"):
            f[c] = Column(self.n, self.log if c == "a" else [])
        self.opened.append(f)
        return f


class FakeHDU:
    def __init__(self, n, log):
        self.data = FakeFitsData(n, log)


class FakeFitsData:
    def __init__(self, n, log):
        self.n, self.log = n, log

    def __len__(self):
        return self.n

    def __getitem__(self, name):
        return Column(self.n, self.log if name == "a" else [])


class FakeFits:
    def __init__(self, n, log):
        self.n, self.log = n, log

    def open(self, path):
        return FakeFitsFile([None, FakeHDU(self.n, self.log)])


class FakeFitsFile(list):
    def close(self):
        pass


# ---- drivers ------------------------------------------------------------------------------------------------------
def _drain(reader, passes):
    out = []
    with reader:
        for _ in range(passes):
            for c in reader:
                out.append(list(c))
    return out


def _covers(slices: List[Tuple[int, int]], n: int, chunk: int, passes: int) -> bool:
    """consecutive, non-overlapping slices of at most `chunk` rows covering [0, n) exactly `passes` times"""
    per = (n + chunk - 1) // chunk
    if len(slices) != per * passes:
        return False
    for p in range(passes):
        pos = 0
        for a, b in slices[p * per:(p + 1) * per]:
            if a != pos or not (0 < b - a <= chunk):
                return False
            pos = b
        if pos != n:
            return False
    return True


def _rows_once(chunks: List[List[int]], n: int, passes: int) -> bool:
    flat = [r for c in chunks for r in c]
    return flat == list(range(n)) * passes


def dataframe_reader(n: int, chunk: int, passes: int) -> Tuple[List[Tuple[int, int]], List[List[int]]]:
    """
    pre: 0 <= n <= 8
    pre: 1 <= chunk <= 4
    pre: 1 <= passes <= 2
    post: _rows_once(_[1], n, passes) and _covers(_[0], n, chunk, passes) and all(len(c) <= chunk for c in _[1])
    """
    log = []
    r = R.DataFrameReader(Frame(n, log), ra_name="a", dec_name="b", weight_name="w", chunksize=chunk)
    return log, _drain(r, passes)


def hdf_reader(n: int, chunk: int, passes: int) -> Tuple[List[Tuple[int, int]], List[List[int]]]:
    """
    pre: 1 <= n <= 8
    pre: 1 <= chunk <= 4
    pre: 1 <= passes <= 2
    post: _rows_once(_[1], n, passes) and _covers(_[0], n, chunk, passes) and all(len(c) <= chunk for c in _[1])
    """
    log = []
    R.h5py = FakeH5(n, log)
    r = R.HDFReader("file.hdf5", ra_name="a", dec_name="b", weight_name="w", chunksize=chunk)
    return log, _drain(r, passes)


def fits_reader(n: int, chunk: int, passes: int) -> Tuple[List[Tuple[int, int]], List[List[int]]]:
    """
    pre: 1 <= n <= 8
    pre: 1 <= chunk <= 4
    pre: 1 <= passes <= 2
    post: _rows_once(_[1], n, passes) and _covers(_[0], n, chunk, passes) and all(len(c) <= chunk for c in _[1])
    """
    log = []
    R.fits = FakeFits(n, log)
    r = R.FitsReader("file.fits", ra_name="a", dec_name="b", chunksize=chunk)
    return log, _drain(r, passes)


# ---- parquet ---------------------------------------------------------------------------------------------------------
class FakeTable:
    def __init__(self, rows):
        self.rows = rows

    def __len__(self):
        return len(self.rows)

    def __getitem__(self, key):
        assert isinstance(key, slice)
        return FakeTable(self.rows[key])

    def column(self, name):
        return self

    def to_numpy(self):
        return list(self.rows)


class FakeMeta:
    def __init__(self, n):
        self.num_rows = n


class FakeParquetFile:
    def __init__(self, groups, log):
        self.groups, self.log = groups, log
        self.metadata = FakeMeta(sum(groups))
        self.failed = 0

    def read_row_group(self, idx, columns=None):
        if idx >= len(self.groups):
            self.failed += 1
            raise R.ArrowException("no such row group")
        lo = sum(self.groups[:idx])
        self.log.append(idx)
        return FakeTable(list(range(lo, lo + self.groups[idx])))

    def close(self):
        pass


class FakePA:
    @staticmethod
    def concat_tables(tables):
        assert len(tables) > 0
        rows = []
        for t in tables:
            rows.extend(t.rows)
        return FakeTable(rows)


class FakeParquetModule:
    def __init__(self, f):
        self.f = f

    def ParquetFile(self, path):
        return self.f


def _parquet(groups, chunk, passes):
    log = []
    f = FakeParquetFile(list(groups), log)
    R.parquet = FakeParquetModule(f)
    R.pa = FakePA
    r = R.ParquetReader("file.pqt", ra_name="a", dec_name="b", chunksize=chunk)
    return log, _drain(r, passes)


def _parquet_ok(res, groups, chunk, passes):
    n = sum(groups)
    return (_rows_once(res[1], n, passes) and all(0 < len(c) <= chunk for c in res[1]) and res[0] == list(range(len(groups))) * passes
            and len(res[1]) == passes * ((n + chunk - 1) // chunk))


def parquet_reader(g0: int, g1: int, g2: int, chunk: int) -> Tuple[List[int], List[List[int]]]:
    """
    pre: 1 <= g0 <= 3 and 0 <= g1 <= 3 and 0 <= g2 <= 3
    pre: g1 > 0 or g2 == 0
    pre: 1 <= chunk <= 4
    post: _parquet_ok(_, [g for g in (g0, g1, g2) if g > 0], chunk, 1)
    """
    return _parquet([g for g in (g0, g1, g2) if g > 0], chunk, 1)


def parquet_reader_two_passes(g0: int, g1: int, chunk: int) -> Tuple[List[int], List[List[int]]]:
    """
    pre: 1 <= g0 <= 3 and 1 <= g1 <= 3
    pre: 1 <= chunk <= 3
    post: _parquet_ok(_, [g0, g1], chunk, 2)
    """
    return _parquet([g0, g1], chunk, 2)


# ---- randoms -----------------------------------------------------------------------------------------------------------
class FakeGen:
    def __init__(self):
        self.calls = []
        self.reseeds = 0
        self.since_reseed = []

    def copy_chunk_info(self):
        return None

    def reseed(self, seed=None):
        self.reseeds += 1
        self.since_reseed = []

    def __call__(self, n):
        self.calls.append(n)
        self.since_reseed.append(n)
        return [n]


def random_reader(n: int, chunk: int, passes: int) -> Tuple[List[int], int, List[int]]:
    """
    pre: 0 <= n <= 9
    pre: 1 <= chunk <= 4
    pre: 1 <= passes <= 2
    post: _[0] == ([chunk] * (n // chunk) + ([n % chunk] if n % chunk else [])) * passes
    post: _[1] == 1 + passes
    post: _[2] == [chunk] * (n // chunk) + ([n % chunk] if n % chunk else [])
    """
    g = FakeGen()
    r = R.RandomReader(g, n, chunk)
    with r:
        for _ in range(passes):
            for c in r:
                pass
    return g.calls, g.reseeds, g.since_reseed


def random_probe_then_pass(n: int, chunk: int, probe: int) -> Tuple[List[int], int, List[int]]:
    """
    pre: 1 <= n <= 8
    pre: 1 <= chunk <= 4
    pre: 0 <= probe <= n
    post: _[0] == [probe] + [chunk] * (n // chunk) + ([n % chunk] if n % chunk else [])
    post: _[1] == 3
    post: _[2] == [chunk] * (n // chunk) + ([n % chunk] if n % chunk else [])
    """
    g = FakeGen()
    r = R.RandomReader(g, n, chunk)
    r.get_probe(probe)
    with r:
        for c in r:
            pass
    return g.calls, g.reseeds, g.since_reseed


def random_probe_too_large(n: int, probe: int) -> bool:
    """
    pre: 0 <= n <= 8
    pre: n < probe <= 12
    post: _
    """
    r = R.RandomReader(FakeGen(), n, 3)
    try:
        r.get_probe(probe)
    except ValueError:
        return True
    return False


def twin_dataframe_reader(n: int, chunk: int) -> Tuple[List[Tuple[int, int]], List[List[int]]]:
    """
    pre: 0 <= n <= 8
    pre: 1 <= chunk <= 4
    post: len(_[0]) != 3
    """
    return dataframe_reader(n, chunk, 1)
