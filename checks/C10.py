"""C10 -- redshift-bin membership follows the closed-side rule everywhere."""
from __future__ import annotations

import sys

import numpy as np
import z3

import yaw.binning
import yaw.catalog.trees as trees_mod
import yaw.coordinates
import yaw.datachunk
import yaw.redshifts
import yaw.utils.misc
from yaw.binning import Binning
from yaw.catalog.trees import AngularTree, build_trees
from yaw.redshifts import _redshift_histogram
from yaw.utils.misc import groupby

from checks.common import vec, wrap
from vf import runner
from vf.runner import Check, Harness
from vf.stubs.kdtree import SpecTree
from vf.symx import SB, SV, concretise, sarr, symarr

MODS = (yaw.binning, trees_mod, yaw.coordinates, yaw.datachunk, yaw.redshifts, yaw.utils.misc)


def in_bin(z, lo, hi, closed):
    """the rule of the statement"""
    if closed == "right":
        return (lo < z) & (z <= hi)
    return (lo <= z) & (z < hi)


def bsum(conds, vals):
    """sum of vals[i] where conds[i]; works for SB/bool"""
    from vf.symx import ite

    tot = 0.0
    for c, v in zip(conds, vals):
        if isinstance(c, SB):
            tot = tot + ite(c, v, 0.0)
        elif c:
            tot = tot + v
    return tot


def agree(flag, cond):
    """python bool `flag` (observed) must equal the rule `cond`"""
    if isinstance(cond, SB):
        return SB(cond.e == z3.BoolVal(bool(flag)))
    return bool(flag) == bool(cond)


class FakePatch:
    """in-memory stand-in for yaw.catalog.Patch (only what build_trees / _redshift_histogram use)"""

    has_redshifts = True

    def __init__(self, chunk, has_weights):
        self._chunk = chunk
        self.has_weights = has_weights

    def load_data(self):
        return self._chunk

    @property
    def redshifts(self):
        return self._chunk["redshifts"]

    @property
    def weights(self):
        return self._chunk["weights"] if self.has_weights else None


def make_chunk(z, w, ra, dec):
    n = len(z)
    symbolic = z.dtype == object
    ft = "O" if symbolic else "f8"
    fields = [("ra", ft), ("dec", ft)] + ([("weights", ft)] if w is not None else []) + [("redshifts", ft)]
    chunk = np.empty(n, dtype=fields)
    chunk["ra"], chunk["dec"], chunk["redshifts"] = ra, dec, z
    if w is not None:
        chunk["weights"] = w
    return wrap(chunk) if symbolic else chunk


class _Base(Harness):
    modules = MODS
    extra = {"yaw.catalog.trees": {"KDTree": SpecTree}}

    def __init__(self, n, B, wrong=None):
        self.n, self.B, self.wrong = n, B, wrong
        self.must_fail = wrong is not None
        self.assumptions = ("bin edges strictly increasing (enforced by Binning)",)

    def make_inputs(self, eng):
        d = {"z": symarr("z", (self.n,)), "w": symarr("w", (self.n,)), "edges": symarr("e", (self.B + 1,))}
        for i in range(self.B):
            eng.assume(d["edges"][i] < d["edges"][i + 1])
        d["closed"] = eng.choose(2, "closed")
        d["weighted"] = eng.choose(2, "weighted")
        return d

    def concrete_inputs(self, m, inp):
        out = concretise(m, {k: v for k, v in inp.items() if k not in ("closed", "weighted")})
        out["closed"], out["weighted"] = inp["closed"], inp["weighted"]
        return out

    def setup(self, inp):
        closed = ("right", "left")[int(inp["closed"])]
        weighted = bool(inp["weighted"])
        n = self.n
        ra = 0.125 * (1 + np.arange(n))  # concrete, distinct tags
        dec = 0.0625 * (1 + np.arange(n))
        chunk = make_chunk(inp["z"], inp["w"] if weighted else None, ra, dec)
        binning = Binning(inp["edges"].copy(), closed=closed)
        return closed, weighted, FakePatch(chunk, weighted), binning, ra, dec


class Trees(_Base):
    functions = (build_trees, groupby, AngularTree.__init__, AngularTree.empty)

    def __init__(self, n, B, wrong=None):
        super().__init__(n, B, wrong)
        self.name = "trees.n%dB%d" % (n, B) + (".twin-" + wrong if wrong else "")
        self.bounds = "objects=%d bins=%d; redshifts, weights, edges symbolic; closed side and weights present/absent chosen by the engine" % (n, B)

    def body(self, inp):
        closed, weighted, patch, binning, ra, dec = self.setup(inp)
        rule_closed = closed if self.wrong != "side" else ("left" if closed == "right" else "right")
        z, w, e = inp["z"], inp["w"], inp["edges"]
        trees = build_trees(patch, binning, leafsize=16)
        out = [Check("one_tree_per_bin", cond=(len(trees) == self.B))]
        x_of = np.cos(ra) * np.cos(dec)  # first Euclidean coordinate identifies the record
        for b in range(self.B):
            t = trees[b]
            member = [in_bin(z[i], e[b], e[b + 1], rule_closed) for i in range(self.n)]
            ones = [1.0] * self.n
            out.append(Check("num_records_bin%d" % b, t.num_records, bsum(member, ones)))
            out.append(Check("sum_weights_bin%d" % b, t.sum_weights, bsum(member, list(w) if weighted else ones)))
            data = np.asarray(t.data, dtype=float)
            rows = [int(np.argmin(np.abs(x_of - data[j, 0]))) for j in range(len(data))]
            out.append(Check("members_bin%d" % b, cond=[agree(i in rows, member[i]) for i in range(self.n)]))
            out.append(Check("rows_consistent_bin%d" % b, cond=(len(rows) == t.num_records and len(set(rows)) == len(rows))))
            if weighted and t.num_records > 0:
                out.append(Check("weights_aligned_bin%d" % b, t.weights, vec(lambda j: w[rows[j]], len(rows))))
            out.append(Check("weights_presence_bin%d" % b, cond=((t.weights is not None) == weighted)))
        if self.wrong == "reach":
            out.append(Check("reach", cond=False))
        return out


class UnbinnedTree(_Base):
    functions = (build_trees, AngularTree.__init__)

    def __init__(self, n):
        super().__init__(n, 1)
        self.name = "trees.unbinned.n%d" % n
        self.bounds = "objects=%d, no binning: a single tree with all records" % n

    def body(self, inp):
        closed, weighted, patch, binning, ra, dec = self.setup(inp)
        t = build_trees(patch, None, leafsize=16)
        w = inp["w"]
        out = [Check("all_records", cond=(t.num_records == self.n)),
               Check("sum_weights", t.sum_weights, sum(list(w), 0) if weighted else float(self.n))]
        return out


class Hist(_Base):
    functions = (_redshift_histogram,)

    def __init__(self, n, B, wrong=None):
        super().__init__(n, B, wrong)
        self.name = "histogram.n%dB%d" % (n, B) + (".twin-" + wrong if wrong else "")
        self.bounds = "objects=%d bins=%d; redshifts, weights, edges symbolic; closed side / weights chosen by the engine" % (n, B)

    def body(self, inp):
        closed, weighted, patch, binning, ra, dec = self.setup(inp)
        rule_closed = closed if self.wrong != "side" else ("left" if closed == "right" else "right")
        z, w, e = inp["z"], inp["w"], inp["edges"]
        counts = _redshift_histogram(patch, binning)
        exp = vec(lambda b: bsum([in_bin(z[i], e[b], e[b + 1], rule_closed) for i in range(self.n)],
                                 list(w) if weighted else [1.0] * self.n), self.B)
        return [Check("histogram_counts", counts, exp), Check("shape", cond=(np.shape(counts) == (self.B,)))]


class TreesVsHist(_Base):
    """the two consumers apply one rule: per-bin weight sums of the trees equal the histogram"""

    functions = (build_trees, _redshift_histogram)

    def __init__(self, n, B):
        super().__init__(n, B)
        self.name = "trees_vs_histogram.n%dB%d" % (n, B)
        self.bounds = "objects=%d bins=%d; all symbolic" % (n, B)

    def body(self, inp):
        closed, weighted, patch, binning, ra, dec = self.setup(inp)
        trees = build_trees(patch, binning, leafsize=16)
        counts = _redshift_histogram(patch, binning)
        return [Check("same_rule", vec(lambda b: trees[b].sum_weights, self.B), counts)]


class BinningPickle(_Base):
    """worker processes receive the binning as a pickled copy: the copy must carry the same edges AND the same closed side"""

    functions = (Binning.__getstate__, Binning.__setstate__) if hasattr(Binning, "__getstate__") else (Binning.__init__,)

    def __init__(self, B):
        super().__init__(1, B)
        self.name = "binning.pickled_copy.B%d" % B
        self.bounds = "bins=%d, symbolic edges, both closed sides; copy through the pickle protocol (__reduce_ex__/__getstate__/__setstate__)" % B

    def body(self, inp):
        import copy
        import pickle

        closed = ("right", "left")[int(inp["closed"])]
        b = Binning(inp["edges"].copy(), closed=closed)
        b2 = copy.deepcopy(b) if inp["edges"].dtype == object else pickle.loads(pickle.dumps(b))
        return [Check("edges", b2.edges, inp["edges"]), Check("closed_side", cond=(str(b2.closed) == str(b.closed) == closed)),
                Check("equal", cond=bool(b2 == b))]


def harnesses(tier):
    # stage lemmas owned by other checks on which "one rule everywhere" rests: the cache key of the trees includes the closed
    # side (so trees of the other rule are never reused), and a measurement takes its per-bin weight sums from those trees
    from checks.C01 import ProcessPair
    from checks.C07 import Step

    hs = [Step(2, 2), ProcessPair(2, 1, "kpc", False), ProcessPair(2, 1, "kpc", True), BinningPickle(2)]
    if tier == "quick":
        hs += [Trees(3, 2), Hist(3, 2), UnbinnedTree(2), TreesVsHist(2, 2)]
    else:
        hs += [Trees(3, 2), Trees(4, 3), Trees(2, 1), Hist(3, 2), Hist(4, 3), Hist(2, 1), UnbinnedTree(3), TreesVsHist(3, 3)]
    hs += [Trees(2, 2, wrong="side"), Hist(2, 2, wrong="side"), Trees(1, 1, wrong="reach")]
    return hs


if __name__ == "__main__":
    sys.exit(
        runner.main(
            "C10",
            harnesses,
            level="other",
            explanation="Bounded symbolic execution of the real build_trees (digitize + groupby + AngularTree) and "
            "_redshift_histogram on object arrays of z3 reals: redshifts, weights and bin edges are solver variables (so values "
            "exactly on any edge, below zmin and above zmax are all covered), the closed side and presence of weights are "
            "engine choices.  z3 proves that per-bin membership, record counts, weight sums and histogram counts equal the "
            "(lo,hi] / [lo,hi) rule of the statement and that empty bins / an entirely empty patch raise nothing.",
            assumptions=[
                "float64 modelled as exact reals",
                "scipy KDTree replaced by a container (its construction is not part of this property)",
                "np.digitize / np.histogram / argsort / unique re-implemented over symbolic scalars according to numpy's documented "
                "rules and differentially tested against numpy on every run",
                "objects <= 4, bins <= 3",
            ],
            trusted_base=["z3", "vf.symnp digitize/histogram/sort/unique kernels", "vf.stubs.kdtree.SpecTree"],
        )
    )
