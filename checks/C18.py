"""C18 -- input is consumed in bounded chunks, each record once per pass."""
from __future__ import annotations

import os
import sys
import types

import numpy as np

import yaw.catalog.catalog as cat_mod
import yaw.catalog.readers as R
from yaw.catalog.catalog import Catalog, PatchMode
from yaw.catalog.readers import DataFrameReader, DataReader, FitsReader, HDFReader, ParquetReader, RandomReader, DataChunkReader
from yaw.coordinates import AngularCoordinates

from vf import runner
from vf.runner import Check, Harness
from vf.symx import Engine

HARNESS = os.path.join(runner.ROOT, "harness", "ch_readers.py")
CH_FUNCS = ["dataframe_reader", "hdf_reader", "fits_reader", "parquet_reader", "parquet_reader_two_passes", "random_reader"]
CH_TWINS = ["twin_dataframe_reader"]


class Col:
    def __init__(self, lo, hi):
        self.lo, self.hi = lo, hi

    def to_numpy(self):
        return np.arange(self.lo, self.hi, dtype=float)


class Frame:
    """pandas.DataFrame stand-in recording every row slice requested"""

    def __init__(self, n, log, lo=0):
        self.n, self.log, self.lo = n, log, lo

    def __len__(self):
        return self.n

    def __getitem__(self, key):
        if isinstance(key, slice):
            start, stop, step = key.indices(self.n)
            stop = max(start, stop)
            self.log.append((self.lo + start, self.lo + stop))
            return Frame(stop - start, self.log, self.lo + start)
        return Col(self.lo, self.lo + self.n)


def covers(slices, n, chunk, passes):
    per = (n + chunk - 1) // chunk
    if len(slices) != per * passes:
        return False
    for p in range(passes):
        pos = 0
        for a, b in slices[p * per:(p + 1) * per]:
            if a != pos or not (0 < b - a <= chunk):
                return False
            pos = b
        if pos != n:
            return False
    return True


class Probe(Harness):
    """DataReader.get_probe reads the source in exactly one chunked pass and returns a near-regular subset"""

    functions = (DataReader.get_probe, DataChunkReader.__next__, DataFrameReader._get_next_chunk)
    xval = False

    def __init__(self, nmax, cmax):
        self.nmax, self.cmax = nmax, cmax
        self.name = "get_probe.n%d.c%d" % (nmax, cmax)
        self.bounds = "n <= %d, chunksize <= %d, probe_size <= n: every combination chosen by the engine" % (nmax, cmax)

    def make_inputs(self, eng):
        n = 1 + eng.choose(self.nmax, "n")
        return {"n": n, "chunk": 1 + eng.choose(self.cmax, "chunk"), "probe": 1 + eng.choose(n, "probe")}

    def concrete_inputs(self, m, inp):
        return dict(inp)

    def body(self, inp):
        n, chunk, probe = inp["n"], inp["chunk"], inp["probe"]
        log = []
        r = DataFrameReader(Frame(n, log), ra_name="a", dec_name="b", chunksize=chunk, degrees=False)
        data = r.get_probe(probe)
        exp = np.linspace(0, n - 1, probe).astype(int)
        out = [Check("one_chunked_pass", cond=covers(log, n, chunk, 1)),
               Check("probe_rows", np.asarray(data["ra"], dtype=float), exp.astype(float)),
               Check("probe_size", cond=(len(data) == probe))]
        log.clear()
        chunks = [c for c in r]
        out.append(Check("iteration_after_probe_is_one_full_pass", cond=(covers(log, n, chunk, 1) and sum(len(c) for c in chunks) == n)))
        return out


class Passes(Harness):
    """catalog creation: one pass over the source, one extra pass only when patch centres are generated"""

    functions = (Catalog.from_dataframe, PatchMode.determine, cat_mod.create_patch_centers, cat_mod.write_patches_unthreaded)
    xval = False

    def __init__(self, nmax, cmax):
        self.nmax, self.cmax = nmax, cmax
        self.name = "creation_passes.n%d.c%d" % (nmax, cmax)
        self.bounds = "n <= %d, chunksize <= %d, patch mode (apply / divide / create) chosen by the engine" % (nmax, cmax)

    def make_inputs(self, eng):
        return {"n": 2 + eng.choose(self.nmax - 1, "n"), "chunk": 1 + eng.choose(self.cmax, "chunk"), "mode": eng.choose(3, "mode")}

    def concrete_inputs(self, m, inp):
        return dict(inp)

    def body(self, inp):
        n, chunk, mode = inp["n"], inp["chunk"], inp["mode"]
        log = []
        frame = Frame(n, log)

        class FakeTreecorr:
            class Catalog:
                def __init__(self, **kw):
                    self.patch_centers = np.array([[1.0, 0.0, 0.0], [0.0, 1.0, 0.0]])

        class FakeWriter:
            def __init__(self, *a, **k):
                self.rows = 0

            def __enter__(self):
                return self

            def __exit__(self, *a):
                return False

            def process_patches(self, patches):
                self.rows += sum(len(v) for v in patches.values())
                FakeWriter.total = getattr(FakeWriter, "total", 0) + sum(len(v) for v in patches.values())

        FakeWriter.total = 0
        saved = {k: getattr(cat_mod, k) for k in ("treecorr", "CatalogWriter", "load_patches")}
        cat_mod.treecorr, cat_mod.CatalogWriter = FakeTreecorr, FakeWriter
        cat_mod.load_patches = lambda *a, **k: {}
        try:
            kw = [dict(patch_centers=AngularCoordinates(np.array([[0.0, 0.0], [1.0, 0.0]]))), dict(patch_name="b"), dict(patch_num=2)][mode]
            Catalog.from_dataframe("/nowhere", frame, ra_name="a", dec_name="b", degrees=False, chunksize=chunk, max_workers=1,
                                   probe_size=max(1, n // 2), **kw)
        finally:
            for k, v in saved.items():
                setattr(cat_mod, k, v)
        passes = 2 if mode == 2 else 1
        return [Check("passes_over_source", cond=covers(log, n, chunk, passes)),
                Check("every_record_written_once", cond=(FakeWriter.total == n))]


def harnesses(tier):
    if tier == "quick":
        return [Probe(6, 3), Passes(5, 3)]
    return [Probe(10, 5), Probe(15, 4), Passes(8, 4), Passes(11, 3)]


def pre(res, tier):
    runner.run_crosshair(res, "C18", HARNESS, names=CH_FUNCS, twins=CH_TWINS, timeout_s=150 if tier == "quick" else 600)


if __name__ == "__main__":
    sys.exit(
        runner.main(
            "C18",
            harnesses,
            pre=pre,
            level="other",
            explanation="CrossHair (symbolic execution of Python with z3) drives the REAL reader classes through their real "
            "constructors and iteration protocol (DataFrameReader, HDFReader, FitsReader, ParquetReader incl. row-group cache, "
            "RandomReader) over recording fake sources with symbolic input length, chunk size and row-group sizes; the "
            "post-conditions say that the requested slices are consecutive, non-overlapping, at most chunksize long, cover [0,n) "
            "exactly once per pass, and that the delivered rows are rows 0..n-1 in order ('Confirmed over all paths' within the "
            "bounds).  get_probe and the number of passes of Catalog.from_dataframe per patch mode are enumerated by the engine.",
            assumptions=[
                "bounds: n <= 8 rows, chunksize <= 4, <= 3 row groups of <= 3 rows, 1-2 passes (stated in harness/ch_readers.py)",
                "h5py / astropy.io.fits / pyarrow replaced by recording fakes that honour slicing semantics (clipping at the end); "
                "what those libraries read internally for a slice is outside the claim",
                "DataChunk.create replaced by a recorder here (analysed in C02); logging stubs; num_chunks stub (integer ceil)",
                "treecorr replaced by a stub returning fixed centres",
            ],
            trusted_base=["CrossHair 0.0.110 + z3", "recording fakes in harness/ch_readers.py"],
        )
    )
