"""C03 -- jackknife sample k is the statistic with patch k left out; covariance."""
from __future__ import annotations

import sys

import numpy as np
import z3

import yaw.redshifts
import yaw.utils.parallel
from yaw.config import BinningConfig
from yaw.correlation import corrdata
from yaw.correlation.corrdata import SampledData, cov_from_samples
from yaw.correlation.corrfunc import CorrFunc, davis_peebles, landy_szalay
from yaw.correlation.paircounts import BinwisePatchwiseArray, NormalisedCounts, PatchedCounts, PatchedSumWeights
from yaw.redshifts import HistData, RedshiftData, _redshift_histogram, resample_jackknife

from checks.common import (
    wrap,
    CORR_MODULES,
    build_counts,
    conc_binning,
    drop_patch,
    mat,
    normalised,
    sym_counts,
    total_counts,
    total_weights,
    vec,
)
from vf import runner
from vf.runner import Check, Harness
from vf.symx import SV, sarr, sym, symarr


class PatchSum(Harness):
    functions = (BinwisePatchwiseArray.sample_patch_sum, PatchedSumWeights.get_array, NormalisedCounts.sample_patch_sum)
    modules = CORR_MODULES

    def __init__(self, kind, auto, B, P, wrong=None):
        self.kind, self.auto, self.B, self.P, self.wrong = kind, auto, B, P, wrong
        self.name = "patchsum.%s.%s.B%dP%d" % (kind, "auto" if auto else "cross", B, P) + (".twin-" + wrong if wrong else "")
        self.bounds = "bins=%d patches=%d, all array entries symbolic reals" % (B, P)
        self.must_fail = wrong is not None

    def make_inputs(self, eng):
        return sym_counts("dd", self.B, self.P, self.auto)

    def body(self, inp):
        binning = conc_binning(self.B)
        B, P, auto = self.B, self.P, self.auto
        nc = build_counts(inp, "dd", binning, auto)
        w1 = inp["dd_w1"]
        w2 = w1 if auto else inp["dd_w2"]
        if self.kind == "counts":
            got = nc.counts.sample_patch_sum()
            f = lambda b, k: total_counts(inp["dd_c"], b, k)
        elif self.kind == "sumweights":
            got = nc.sum_weights.sample_patch_sum()
            f = lambda b, k: total_weights(w1, w2, b, auto, k)
        else:
            got = nc.sample_patch_sum()
            f = lambda b, k: normalised(inp, "dd", b, auto, k)
        shift = 1 if self.wrong == "index" else 0
        exp_data = vec(lambda b: f(b, None), B)
        exp_samples = mat(lambda k, b: f(b, (k + shift) % P), P, B)
        out = [Check("data", got.data, exp_data), Check("samples", got.samples, exp_samples)]
        if self.wrong == "reach":
            out.append(Check("reach", cond=False))
        return out


class SetThenSum(Harness):
    """history: sampling, then filling further patch pairs, then sampling again reflects the current counts"""

    functions = (PatchedCounts.set_patch_pair, PatchedCounts.zeros, BinwisePatchwiseArray.sample_patch_sum,
                 NormalisedCounts.sample_patch_sum, CorrFunc.sample)
    modules = CORR_MODULES

    def __init__(self, B, P, auto):
        self.B, self.P, self.auto = B, P, auto
        self.name = "set_then_sum.B%dP%d.%s" % (B, P, "auto" if auto else "cross")
        self.bounds = "bins=%d patches=%d; containers filled pair by pair with a sampling call after every step; symbolic contents" % (B, P)

    def make_inputs(self, eng):
        d = sym_counts("dd", self.B, self.P, self.auto)
        d.update(sym_counts("dr", self.B, self.P, self.auto))
        return d

    def body(self, inp):
        B, P, auto = self.B, self.P, self.auto
        binning = conc_binning(B)
        w1 = inp["dd_w1"]
        w2 = w1 if auto else inp["dd_w2"]
        pc = PatchedCounts.zeros(binning, P, auto=auto)
        nc = NormalisedCounts(pc, PatchedSumWeights(binning, w1.copy(), w2.copy(), auto=auto))
        dr = build_counts(inp, "dr", binning, auto)
        cf = CorrFunc(nc, dr)
        out = []
        cur = np.zeros((B, P, P), dtype=object)
        step = 0
        for i in range(P):
            for j in range(P):
                pc.set_patch_pair(i, j, inp["dd_c"][:, i, j].copy())
                cur[:, i, j] = inp["dd_c"][:, i, j]
                step += 1
                if step in (1, P * P // 2, P * P):
                    got = pc.sample_patch_sum()
                    got_n = nc.sample_patch_sum()
                    got_cf = cf.sample()
                    snap = {"dd_c": wrap(cur.copy()), "dd_w1": w1}
                    if not auto:
                        snap["dd_w2"] = w2
                    out.append(Check("counts_after_step%d" % step, got.samples,
                                     mat(lambda k, b: total_counts(snap["dd_c"], b, k), P, B)))
                    out.append(Check("normalised_after_step%d" % step, got_n.data, vec(lambda b: normalised(snap, "dd", b, auto), B)))
                    exp = mat(lambda k, b: (normalised(snap, "dd", b, auto, k) - normalised(inp, "dr", b, auto, k))
                              / normalised(inp, "dr", b, auto, k), P, B)
                    out.append(Check("corrfunc_after_step%d" % step, got_cf.samples, exp))
        return out


EST = {"LS": ("dd", "dr", "rr"), "LS+rd": ("dd", "dr", "rd", "rr"), "DP": ("dd", "dr"), "DP-rd": ("dd", "rd")}


class CorrLoo(Harness):
    """CorrFunc.sample(): sample k == the estimator recomputed by the real code from the arrays with patch k deleted"""

    functions = (CorrFunc.sample, landy_szalay, davis_peebles, NormalisedCounts.sample_patch_sum)
    modules = CORR_MODULES

    def __init__(self, est, auto, B, P):
        self.est, self.auto, self.B, self.P = est, auto, B, P
        self.name = "corrfunc.loo.%s.%s.B%dP%d" % (est, "auto" if auto else "cross", B, P)
        self.bounds = "bins=%d patches=%d estimator=%s, all counts and weight sums symbolic" % (B, P, est)
        self.assumptions = ("denominators (weight totals, DR/RD/RR totals) non-zero",)

    def make_inputs(self, eng):
        d = {}
        for t in EST[self.est]:
            d.update(sym_counts(t, self.B, self.P, self.auto))
        return d

    def _cf(self, inp, binning):
        kw = {t: build_counts(inp, t, binning, self.auto) for t in EST[self.est]}
        return CorrFunc(**kw)

    def body(self, inp):
        binning = conc_binning(self.B)
        cd = self._cf(inp, binning).sample()
        out = []
        for k in range(self.P):
            sub = {}
            for t in EST[self.est]:
                sub.update(drop_patch(inp, t, k, self.auto))
            out.append(Check("sample%d" % k, cd.samples[k], self._cf(sub, binning).sample().data))
        out.append(Check("num_samples", cond=(cd.samples.shape == (self.P, self.B))))
        return out


class FakePatch:
    def __init__(self, z, w):
        self._z, self._w = z, w

    @property
    def redshifts(self):
        return self._z

    @property
    def weights(self):
        return self._w

    @property
    def has_weights(self):
        return self._w is not None


class FakeCatalog(dict):
    pass


class HistLoo(Harness):
    functions = (HistData.from_catalog, resample_jackknife, _redshift_histogram)
    modules = CORR_MODULES + (yaw.utils.parallel,)

    def __init__(self, P, n, B, weighted, closed="right", wrong=None):
        self.P, self.n, self.B, self.weighted, self.closed, self.wrong = P, n, B, weighted, closed, wrong
        self.name = "hist.loo.P%dn%dB%d%s.%s" % (P, n, B, "w" if weighted else "", closed) + (".twin-" + wrong if wrong else "")
        self.bounds = "patches=%d objects/patch=%d bins=%d; redshifts and weights symbolic, edges concrete" % (P, n, B)
        self.must_fail = wrong is not None

    def make_inputs(self, eng):
        d = {"z": symarr("z", (self.P, self.n))}
        if self.weighted:
            d["w"] = symarr("w", (self.P, self.n))
        return d

    def body(self, inp):
        binning = conc_binning(self.B, self.closed)
        cfg = BinningConfig(binning)
        cat = FakeCatalog()
        for p in range(self.P):
            cat[p] = FakePatch(inp["z"][p], inp["w"][p] if self.weighted else None)
        hd = HistData.from_catalog(cat, cfg, max_workers=1)
        per = [_redshift_histogram(cat[p], binning) for p in range(self.P)]
        shift = 1 if self.wrong == "index" else 0
        exp_data = vec(lambda b: sum((per[p][b] for p in range(self.P)), 0), self.B)
        exp_samples = mat(lambda k, b: sum((per[p][b] for p in range(self.P) if p != (k + shift) % self.P), 0), self.P, self.B)
        return [Check("data", hd.data, exp_data), Check("samples", hd.samples, exp_samples)]


class JackknifeArray(Harness):
    """resample_jackknife on a fully symbolic (patches, bins) array"""

    functions = (resample_jackknife,)
    modules = CORR_MODULES

    def __init__(self, P, B, patch_rows=True):
        self.P, self.B, self.patch_rows = P, B, patch_rows
        self.name = "resample_jackknife.P%dB%d.%s" % (P, B, "rows" if patch_rows else "cols")
        self.bounds = "patches=%d bins=%d symbolic entries" % (P, B)

    def make_inputs(self, eng):
        return {"obs": symarr("o", (self.P, self.B))}

    def body(self, inp):
        obs = inp["obs"]
        got = resample_jackknife(obs if self.patch_rows else obs.T, patch_rows=self.patch_rows)
        exp = mat(lambda k, b: sum((obs[p, b] for p in range(self.P) if p != k), 0), self.P, self.B)
        return [Check("samples", got, exp)]


class Cov(Harness):
    functions = (cov_from_samples, SampledData.covariance.fget, SampledData.error.fget)
    modules = CORR_MODULES

    def __init__(self, N, B, wrong=None):
        self.N, self.B, self.wrong = N, B, wrong
        self.name = "covariance.N%dB%d" % (N, B) + (".twin-" + wrong if wrong else "")
        self.bounds = "samples=%d bins=%d symbolic samples and test vector" % (N, B)
        self.must_fail = wrong is not None

    def make_inputs(self, eng):
        return {"x": symarr("x", (self.N, self.B)), "v": symarr("v", (self.B,))}

    def _sos_nonneg(self, s):
        if not any(isinstance(v, SV) for v in s):
            return True
        t = [sym("t%d" % k) for k in range(len(s))]
        return sum((tk * tk for tk in t), 0) * (self.N - 1) / self.N >= 0

    def body(self, inp):
        x, v = inp["x"], inp["v"]
        N, B = self.N, self.B
        sd = SampledData(conc_binning(B), x[0].copy(), x.copy())
        cov = sd.covariance
        err = sd.error
        mean = [sum((x[k, a] for k in range(N)), 0) / N for a in range(B)]
        fac = (N - 1) / N if self.wrong != "factor" else 1.0
        exp = mat(lambda a, b: sum(((x[k, a] - mean[a]) * (x[k, b] - mean[b]) for k in range(N)), 0) * (N - 1) / N, B, B)
        if self.wrong == "factor":
            exp = mat(lambda a, b: sum(((x[k, a] - mean[a]) * (x[k, b] - mean[b]) for k in range(N)), 0) / N, B, B)
        cov = np.atleast_2d(cov)
        quad = sum((v[a] * cov[a, b] * v[b] for a in range(B) for b in range(B)), 0)
        # sum-of-squares certificate (a polynomial identity) used as a hint for the PSD inequality
        s = [sum((v[a] * (x[k, a] - mean[a]) for a in range(B)), 0) for k in range(N)]
        sos = sum((sk * sk for sk in s), 0) * (N - 1) / N
        out = [
            Check("cov", cov, exp),
            Check("symmetric", cov, cov.T),
            Check("psd_certificate", quad, sos),
            # PSD = the certificate identity above + "a positive multiple of a sum of squares is non-negative"
            # (the latter asked of the solver over fresh variables t_k standing for the linear forms s_k)
            Check("psd_sum_of_squares_nonneg", cond=self._sos_nonneg(s)),
            Check("psd_concrete", cond=(True if isinstance(quad, SV) else bool(quad >= -1e-9 * (1 + abs(quad))))),
            Check("error_sq", vec(lambda a: err[a] * err[a], B), vec(lambda a: cov[a, a], B), tol=1e-7),
            Check("error_nonneg", cond=[err[a] >= 0 for a in range(B)]),
        ]
        return out


class CovF64(Harness):
    """IEEE binary64 semantics of the covariance arithmetic: whatever the samples, rounding must not produce a negative
    variance or an asymmetric matrix (both are impossible for sums of products of deviations, in any summation order)"""

    functions = (cov_from_samples, SampledData.error.fget)
    modules = CORR_MODULES
    xval = False
    fp = True

    def __init__(self, N, B, wrong=None):
        self.N, self.B, self.wrong = N, B, wrong
        self.name = "covariance.float64.N%dB%d" % (N, B) + (".twin-" + wrong if wrong else "")
        self.bounds = "samples=%d bins=%d; every float64 sample value with |x| <= 2^100 (all bit patterns)" % (N, B)
        self.assumptions = ("np.cov = mean of products of deviations from the mean (numpy's documented algorithm); the sign and "
                            "symmetry conclusions do not depend on the summation order inside the matrix product",)
        self.must_fail = wrong is not None

    def make_inputs(self, eng):
        from vf import fpx

        x = fpx.fparr("x", (self.N, self.B))
        for v in x.ravel():
            eng.assume(abs(v) <= 2.0**100)
        return {"x": x}

    def concrete_inputs(self, m, inp):
        from vf.symx import concretise

        return concretise(m, inp)

    def body(self, inp):
        x = inp["x"]
        B = self.B
        with np.errstate(all="ignore"):
            cov = np.atleast_2d(cov_from_samples(x.copy()))
            err = SampledData(conc_binning(B), x[0].copy(), x.copy()).error
        zero = 0.0 if self.wrong != "positive" else 2.0**-1000
        out = [Check("variance_%d_not_negative" % a, cond=(cov[a, a] >= zero)) for a in range(B)]
        out += [Check("error_%d_is_a_number" % a, cond=(err[a] >= 0.0)) for a in range(B)]
        for a in range(B):
            for b in range(a + 1, B):
                out.append(Check("symmetric_%d_%d" % (a, b), cond=(cov[a, b] == cov[b, a])))
        return out


class CovNaN(Harness):
    """a non-finite jackknife sample (outside the real-number model): concrete sentinel at an engine-chosen position"""

    functions = (cov_from_samples, SampledData.covariance.fget, SampledData.error.fget)
    modules = ()
    xval = False

    def __init__(self):
        self.name = "covariance.nonfinite_sample"
        self.bounds = "4 samples x 3 bins of concrete numbers with nan / inf at every (sample, bin) position chosen by the engine"

    def make_inputs(self, eng):
        return {"k": eng.choose(4, "sample"), "b": eng.choose(3, "bin"), "v": eng.choose(2, "nan_or_inf")}

    def concrete_inputs(self, m, inp):
        return dict(inp)

    def body(self, inp):
        N, B = 4, 3
        x = np.array([[1.0, 2.0, 4.0], [2.5, 1.0, 3.0], [0.5, 4.0, 1.5], [3.0, 2.5, 2.0]])
        x[inp["k"], inp["b"]] = (np.nan, np.inf)[inp["v"]]
        sd = SampledData(conc_binning(B), x[0].copy(), x.copy())
        with np.errstate(all="ignore"):
            cov = sd.covariance
            err = sd.error
        good = [a for a in range(B) if a != inp["b"]]
        mean = x.mean(axis=0)
        exp = np.array([[((x[:, a] - mean[a]) * (x[:, c] - mean[c])).sum() * (N - 1) / N for c in good] for a in good])
        got = cov[np.ix_(good, good)]
        return [Check("unaffected_bins_use_all_N_samples", got, exp),
                Check("affected_bin_is_not_finite", cond=bool(not np.isfinite(cov[inp["b"], inp["b"]]) and not np.isfinite(err[inp["b"]]))),
                Check("unaffected_errors", err[good], np.sqrt(np.diag(exp)))]


class NzLoo(Harness):
    functions = (RedshiftData.from_corrfuncs, RedshiftData.from_corrdata, CorrFunc.sample)
    modules = CORR_MODULES
    xval = False  # sqrt is an uninterpreted function in the model

    def __init__(self, P, with_ref, with_unk):
        self.P, self.with_ref, self.with_unk = P, with_ref, with_unk
        self.B = 1
        self.name = "nz.loo.P%d%s%s" % (P, ".ref" if with_ref else "", ".unk" if with_unk else "")
        self.bounds = "bins=1 patches=%d DP estimator; cross + optional auto correlations symbolic; dz concrete" % P
        self.assumptions = ("radicands positive, denominators non-zero",)

    def make_inputs(self, eng):
        d = {}
        for t in ("x_dd", "x_dr"):
            d.update(sym_counts(t, 1, self.P, False))
        if self.with_ref:
            for t in ("r_dd", "r_dr"):
                d.update(sym_counts(t, 1, self.P, True))
        if self.with_unk:
            for t in ("u_dd", "u_dr"):
                d.update(sym_counts(t, 1, self.P, True))
        return d

    def _cfs(self, inp, binning):
        cross = CorrFunc(build_counts(inp, "x_dd", binning, False), build_counts(inp, "x_dr", binning, False))
        ref = unk = None
        if self.with_ref:
            ref = CorrFunc(build_counts(inp, "r_dd", binning, True), build_counts(inp, "r_dr", binning, True))
        if self.with_unk:
            unk = CorrFunc(build_counts(inp, "u_dd", binning, True), build_counts(inp, "u_dr", binning, True))
        return cross, ref, unk

    def body(self, inp):
        binning = conc_binning(1)
        dz = float(binning.dz[0])
        nz = RedshiftData.from_corrfuncs(*self._cfs(inp, binning))
        out = []

        def dp(prefix, auto, k):
            dd = normalised(inp, prefix + "_dd", 0, auto, k)
            dr = normalised(inp, prefix + "_dr", 0, auto, k)
            return (dd - dr) / dr

        for k in [None] + list(range(self.P)):
            wsp = dp("x", False, k)
            rad = dz * dz
            if self.with_ref:
                rad = rad * dp("r", True, k)
            if self.with_unk:
                rad = rad * dp("u", True, k)
            a = nz.data[0] if k is None else nz.samples[k][0]
            tag = "data" if k is None else "sample%d" % k
            # sqrt is uninterpreted in the model: compare squares and signs
            out.append(Check(tag + "_sq", a * a * rad, wsp * wsp, tol=1e-7))
            same = (a >= 0) == (wsp >= 0)
            out.append(Check(tag + "_sign", cond=same))
        return out


def harnesses(tier):
    hs = []
    if tier == "quick":
        shapes = [(2, 3)]
    else:
        shapes = [(2, 3), (3, 4), (1, 5), (1, 2)]
    for B, P in shapes:
        for auto in (False, True):
            for kind in ("counts", "sumweights", "normalised"):
                if kind == "counts" and auto and (B, P) != shapes[0]:
                    continue
                hs.append(PatchSum(kind, auto, B, P))
    hs.append(PatchSum("normalised", True, 1, 3, wrong="index"))
    hs.append(PatchSum("sumweights", True, 1, 3, wrong="reach"))
    ests = ["LS", "DP"] if tier == "quick" else list(EST)
    for est in ests:
        for auto in (False, True):
            if est in ("LS+rd", "DP-rd") and auto:
                continue
            hs.append(CorrLoo(est, auto, 1, 3))
    if tier == "thorough":
        hs.append(CorrLoo("LS", False, 2, 4))
        hs.append(CorrLoo("DP", True, 1, 5))
    hs.append(SetThenSum(1, 2, False))
    hs.append(SetThenSum(1, 2, True))
    if tier == "thorough":
        hs.append(SetThenSum(2, 3, False))
    hs.append(JackknifeArray(3, 2))
    hs.append(JackknifeArray(4, 1, patch_rows=False))
    hs.append(HistLoo(3, 1, 2, True))
    hs.append(HistLoo(3, 1, 2, False, closed="left"))
    hs.append(HistLoo(3, 1, 2, True, wrong="index"))
    if tier == "thorough":
        hs.append(JackknifeArray(5, 3))
        hs.append(HistLoo(4, 1, 2, True))
        hs.append(HistLoo(3, 2, 1, True, closed="left"))
    hs.append(Cov(3, 2))
    hs.append(CovNaN())
    hs.append(Cov(3, 2, wrong="factor"))
    hs.append(CovF64(2, 2))
    hs.append(CovF64(2, 1, wrong="positive"))
    if tier == "thorough":
        hs.append(CovF64(3, 2))
        hs.append(Cov(4, 2))
        hs.append(Cov(5, 3))
        hs.append(Cov(2, 3))
    hs.append(NzLoo(2, False, False))
    hs.append(NzLoo(3, True, False))
    if tier == "thorough":
        hs.append(NzLoo(3, True, True))
    return hs


if __name__ == "__main__":
    sys.exit(
        runner.main(
            "C03",
            harnesses,
            level="other",
            explanation="Bounded symbolic execution of the real resampling code (sample_patch_sum, get_array, CorrFunc.sample, "
            "resample_jackknife, HistData.from_catalog, cov_from_samples, RedshiftData.from_corrfuncs) on numpy object arrays of "
            "z3 reals; each jackknife sample is compared by z3 with the leave-patch-k-out statistic (explicit sums and "
            "delete-and-recompute through the public constructors), the covariance with the delete-one formula, PSD via a "
            "sum-of-squares certificate.  unsat = holds for every real-valued array content at the stated shapes.  In addition "
            "(covariance.float64.*) the covariance / error arithmetic is executed on IEEE FloatingPoint(11,53) terms and cvc5 decides "
            "over all bit patterns with |x| <= 2^100 that rounding never yields a negative variance, a NaN error or an asymmetric matrix.",
            assumptions=[
                "float64 modelled as exact reals (no rounding, no NaN/inf) except in covariance.float64.* (bit-precise binary64) and "
                "covariance.nonfinite_sample (concrete sentinels)",
                "claims restricted to inputs where no division by zero occurs (side conditions)",
                "shapes bounded as listed per harness; N=1 patch not covered",
                "iter_unordered runs in submission order here (arrival order is C05)",
            ],
            trusted_base=["z3", "cvc5 1.0 (QF_FP)", "numpy object-array plumbing (einsum/tile/triu/fancy indexing)", "vf.symnp.cov/histogram kernels (conformance-tested each run)"],
        )
    )
