"""C05 -- results do not depend on worker count or completion order (multiprocessing)."""
from __future__ import annotations

import copy
import itertools
import sys
import types

import numpy as np
import z3

import yaw.binning
import yaw.catalog.catalog as cat_mod
import yaw.correlation.measurements as meas
import yaw.correlation.paircounts
import yaw.redshifts as redshifts_mod
import yaw.utils.parallel as par
from yaw.binning import Binning
from yaw.catalog.catalog import Catalog, load_patches
from yaw.config import BinningConfig
from yaw.correlation.measurements import PatchLinkage, PatchPaircounts
from yaw.redshifts import HistData

from checks.common import CORR_MODULES, conc_binning, wrap
from vf import runner
from vf.runner import Check, Harness
from vf.symx import SB, SV, Engine, concretise, sarr, sym, symarr


# ---- model of multiprocessing.Pool -------------------------------------------------------------------------------
def pickled(obj):
    """the Pool contract moves functions, arguments and results between processes by pickling; copy.deepcopy drives the same
    __reduce_ex__ / __getstate__ / __setstate__ protocol and also works for symbolic payloads (z3 terms are not picklable)"""
    return copy.deepcopy(obj)


class FakePool:
    """Pool.imap_unordered contract: every task is executed once (on a pickled copy of function and argument), results are
    handed over once each (as a pickled copy), in ANY order (the order is an engine choice); Pool.map returns the results
    in submission order."""

    current_order = None
    created = []

    def __init__(self, processes=None, *a, **k):
        self.processes = processes
        FakePool.created.append(processes)

    def __enter__(self):
        return self

    def __exit__(self, *a):
        return False

    def imap_unordered(self, func, iterable, chunksize=1):
        tasks = list(iterable)
        order = FakePool.current_order(len(tasks)) if FakePool.current_order else list(range(len(tasks)))
        for i in order:
            f, t = pickled((func, tasks[i]))
            yield pickled(f(t))

    def map(self, func, iterable, chunksize=None):
        out = []
        for t in iterable:
            f, t = pickled((func, t))
            out.append(pickled(f(t)))
        return out


class FakeMP:
    Pool = FakePool

    @staticmethod
    def cpu_count():
        return 8


def canon(e):
    """structure of a term modulo commutativity only (association of + and * is kept: float addition is commutative
    but not associative)"""
    if isinstance(e, SV):
        e = e.e
    if not z3.is_expr(e):
        return ("const", repr(e))
    if z3.is_app(e) and e.num_args() > 0:
        kids = [canon(c) for c in e.children()]
        k = e.decl().kind()
        if k in (z3.Z3_OP_ADD, z3.Z3_OP_MUL):
            kids = sorted(kids, key=repr)
        return (e.decl().name(),) + tuple(kids)
    return ("leaf", e.sexpr())


def same_structure(a, b):
    a, b = np.asarray(a, dtype=object), np.asarray(b, dtype=object)
    if a.shape != b.shape:
        return False
    return all(canon(x) == canon(y) for x, y in zip(a.ravel(), b.ravel()))


class _Sched(Harness):
    xval = False

    def setup_parallel(self, inp):
        perm = inp["perm"]
        FakePool.current_order = lambda n: list(perm[:n]) if len(perm) >= n else list(range(n))
        FakePool.created = []
        self._saved = (par.multiprocessing, par._num_processes)
        par.multiprocessing = FakeMP
        par._num_processes = lambda: inp["workers"]

    def teardown_parallel(self):
        par.multiprocessing, par._num_processes = self._saved
        FakePool.current_order = None

    def sched_inputs(self, eng, ntasks, max_workers_extra=1):
        perms = list(itertools.permutations(range(ntasks)))
        return {"perm": list(perms[eng.choose(len(perms), "completion_order")]), "workers": 1 + eng.choose(ntasks + max_workers_extra, "workers")}


class FakePatch:
    def __init__(self, z, w, pid):
        self._z, self._w, self.pid = z, w, pid
        self.has_weights = True

    @property
    def redshifts(self):
        return self._z

    @property
    def weights(self):
        return self._w


class Hist(_Sched):
    functions = (HistData.from_catalog, par.iter_unordered, par._multiprocessing_iter_unordered, par.ParallelJob.__call__, par.get_size)
    modules = CORR_MODULES + (par,)

    def __init__(self, P, wrong=None, edges=False):
        self.P, self.wrong, self.edges = P, wrong, edges
        self.name = "histogram.P%d" % P + (".edges" if edges else "") + (".twin-" + wrong if wrong else "")
        self.bounds = ("%d patches (= tasks) x 1 object, 2 bins; redshifts/weights symbolic (%s); every completion order and worker count 1..%d; "
                       "function, arguments and results cross the process boundary as pickled copies") % (
            P, "anywhere in [zmin, zmax] incl. exactly on the edges, closed side chosen by the engine" if edges else "inside the first bin", P + 1)
        self.must_fail = wrong is not None

    def make_inputs(self, eng):
        d = {"z": symarr("z", (self.P, 1)), "w": symarr("w", (self.P, 1))}
        for v in d["z"].ravel():
            if self.edges:
                eng.assume((v >= 0.25) & (v <= 0.75))
                for w in d["w"].ravel():  # the replay builds real catalogs: their metadata need a positive weight sum
                    eng.assume((w >= 0.5) & (w <= 2.0))
            else:
                eng.assume((v > 0.25) & (v < 0.5))  # all objects in the first bin: the schedule is the only variable
        d["closed"] = eng.choose(2, "closed") if self.edges else 0
        d.update(self.sched_inputs(eng, self.P))
        return d

    def concrete_inputs(self, m, inp):
        out = concretise(m, {"z": inp["z"], "w": inp["w"]})
        out["perm"], out["workers"], out["closed"] = inp["perm"], inp["workers"], inp["closed"]
        return out

    def body(self, inp):
        if Engine.cur is None:
            return self.concrete_body(inp)
        binning = conc_binning(2, closed=("right", "left")[inp.get("closed", 0)])
        cat = {i: FakePatch(inp["z"][i], inp["w"][i], i) for i in range(self.P)}
        cfg = BinningConfig(binning)
        self.setup_parallel(inp)
        try:
            got = HistData.from_catalog(cat, cfg)
        finally:
            self.teardown_parallel()
        inorder = dict(inp, perm=list(range(self.P)), workers=1 if self.wrong != "self" else inp["workers"])
        self.setup_parallel(inorder)
        try:
            ref = HistData.from_catalog(cat, cfg)
        finally:
            self.teardown_parallel()
        if self.wrong == "reach":
            return [Check("reach", cond=False)]
        return [Check("data_bit_identical", cond=same_structure(got.data, ref.data)),
                Check("samples_bit_identical_and_in_patch_order", cond=same_structure(got.samples, ref.samples)),
                Check("values", got.samples, ref.samples)]

    def concrete_body(self, inp):
        """replay on real catalogs with the real multiprocessing pool; completion order forced by wrapping imap_unordered"""
        import multiprocessing.pool
        import shutil
        import tempfile

        import pandas as pd
        from yaw import Catalog as RealCatalog, Configuration

        tmp = tempfile.mkdtemp(prefix="c05_", dir=runner.ROOT + "/scratch")
        perm = inp["perm"]
        orig = multiprocessing.pool.Pool.imap_unordered

        def forced(self, func, iterable, chunksize=1):
            res = self.map(func, list(iterable))
            for i in (perm if len(perm) == len(res) else range(len(res))):
                yield res[i]

        saved_np = par._num_processes
        try:
            P = self.P
            closed = ("right", "left")[inp.get("closed", 0)]
            cfg = Configuration.create(rmin=1, rmax=2, edges=[0.25, 0.5, 0.75], closed=closed)
            pid = np.array([i for i in range(P) for _ in range(i + 1)])
            k = np.arange(len(pid))
            if self.edges:  # the solver's redshifts and weights (one object per patch)
                banks = [(np.asarray(inp["z"], dtype=float).ravel(), np.asarray(inp["w"], dtype=float).ravel(), np.arange(P))]
            else:  # the schedule is the counterexample; weights are witnesses of the non-associativity of float addition
                z = np.array([0.3 + 0.01 * i for i in range(P) for _ in range(i + 1)])
                banks = [(z, w, pid) for w in (1.0 + 0.37 * k, 0.1 * (1.0 + k), 1.0 / (3.0 + k), 2.0 ** (20.0 * (k % 3)) + 1.0 / 3.0)]
            worst = None
            for n, (z, w, pp) in enumerate(banks):
                df = pd.DataFrame({"ra": np.linspace(1, 2, len(z)), "dec": np.linspace(1, 2, len(z)), "z": z, "w": w, "p": pp})
                cat = RealCatalog.from_dataframe(tmp + "/c%d" % n, df, ra_name="ra", dec_name="dec", redshift_name="z", weight_name="w", patch_name="p", max_workers=1)
                par._num_processes = lambda: 1
                multiprocessing.pool.Pool.imap_unordered = orig
                ref = HistData.from_catalog(cat, cfg)
                par._num_processes = lambda: max(2, int(inp["workers"]))
                multiprocessing.pool.Pool.imap_unordered = forced
                got = HistData.from_catalog(cat, cfg)
                res = [Check("data_bit_identical", cond=bool(np.array_equal(got.data, ref.data))),
                       Check("samples_bit_identical_and_in_patch_order", cond=bool(np.array_equal(got.samples, ref.samples))),
                       Check("values", got.samples, ref.samples)]
                if worst is None or not (np.array_equal(got.data, ref.data) and np.array_equal(got.samples, ref.samples)):
                    worst = res
                    if n:
                        break
            return worst
        finally:
            multiprocessing.pool.Pool.imap_unordered = orig
            par._num_processes = saved_np
            shutil.rmtree(tmp, ignore_errors=True)


class CountPairs(_Sched):
    functions = (PatchLinkage.count_pairs, par.iter_unordered, par._multiprocessing_iter_unordered)
    modules = (meas, yaw.correlation.paircounts, yaw.binning, par)

    def __init__(self, N, auto):
        self.N, self.auto = N, auto
        self.name = "count_pairs.N%d.%s" % (N, "auto" if auto else "cross")
        self.ntasks = N * (N + 1) // 2 if auto else N * N
        self.bounds = "%d patches all linked (%d tasks), 1 bin, 1 scale; payloads symbolic; every completion order, workers 1..%d" % (N, self.ntasks, self.ntasks + 1)

    def make_inputs(self, eng):
        N = self.N
        d = {"counts": symarr("c", (N, N, 1, 1)), "sw1": symarr("a", (N, 1)), "sw2": symarr("b", (N, 1))}
        d.update(self.sched_inputs(eng, self.ntasks))
        return d

    def concrete_inputs(self, m, inp):
        out = concretise(m, {k: inp[k] for k in ("counts", "sw1", "sw2")})
        out["perm"], out["workers"] = inp["perm"], inp["workers"]
        return out

    def run(self, inp):
        N, auto = self.N, self.auto
        binning = conc_binning(1)
        cfg = types.SimpleNamespace(binning=types.SimpleNamespace(binning=binning), scales=types.SimpleNamespace(num_scales=1))
        pl = PatchLinkage.__new__(PatchLinkage)
        pl.config, pl.patch_links = cfg, {i: set(range(N)) for i in range(N)}
        C, sw1, sw2 = inp["counts"], inp["sw1"], (inp["sw1"] if auto else inp["sw2"])

        def fake(pair, config):
            return PatchPaircounts(pair.id1, pair.id2, sw1[pair.id1].copy(), sw2[pair.id2].copy(), C[pair.id1, pair.id2].copy())

        old = meas.process_patch_pair
        meas.process_patch_pair = fake
        try:
            cat = {i: "p%d" % i for i in range(N)}
            return pl.count_pairs(cat) if auto else pl.count_pairs(cat, {i: "q%d" % i for i in range(N)})
        finally:
            meas.process_patch_pair = old

    def concrete_body(self, inp):
        """replay with real catalogs (all patch pairs linked), the real pool and a forced completion order of the pair tasks"""
        import multiprocessing.pool
        import shutil
        import tempfile

        import pandas as pd
        from yaw import Catalog as RealCatalog, Configuration

        tmp = tempfile.mkdtemp(prefix="c05p_", dir=runner.ROOT + "/scratch")
        perm = inp["perm"]
        orig = multiprocessing.pool.Pool.imap_unordered

        def forced(self, func, iterable, chunksize=1):
            res = self.map(func, list(iterable))
            for i in (perm if len(perm) == len(res) else range(len(res))):
                yield res[i]

        saved_np = par._num_processes
        try:
            N, n = self.N, 12 * self.N
            k = np.arange(n)
            mkdf = lambda off: pd.DataFrame({"ra": 1.0 + 0.01 * ((k * 7 + off) % n), "dec": 1.0 + 0.013 * ((k * 5 + off) % n), "z": 0.3 + 0.001 * k,
                                              "w": 0.1 * (1.0 + (k + off) % 9), "p": k % N})
            kw = dict(ra_name="ra", dec_name="dec", redshift_name="z", weight_name="w", patch_name="p", max_workers=1)
            d = RealCatalog.from_dataframe(tmp + "/d", mkdf(0), **kw)
            r = RealCatalog.from_dataframe(tmp + "/r", mkdf(3), **kw)
            cfg = Configuration.create(rmin=0.001, rmax=5.0, unit="deg", edges=[0.25, 0.5])
            run = (lambda w: meas.autocorrelate(cfg, d, r, count_rr=False, max_workers=w)[0].dd) if self.auto else (
                lambda w: meas.crosscorrelate(cfg, d, r, unk_rand=r, max_workers=w)[0].dd)
            par._num_processes = lambda: 1
            ref = run(1)
            par._num_processes = lambda: max(2, int(inp["workers"]))
            multiprocessing.pool.Pool.imap_unordered = forced
            got = run(max(2, int(inp["workers"])))
            same = lambda a, b: bool(np.array_equal(a, b))
            return [Check("counts_bit_identical", cond=same(got.counts.counts, ref.counts.counts)),
                    Check("sum_weights1_bit_identical", cond=same(got.sum_weights.sum_weights1, ref.sum_weights.sum_weights1)),
                    Check("sum_weights2_bit_identical", cond=same(got.sum_weights.sum_weights2, ref.sum_weights.sum_weights2)),
                    Check("sampled_bit_identical", cond=same(got.sample_patch_sum().samples, ref.sample_patch_sum().samples))]
        finally:
            multiprocessing.pool.Pool.imap_unordered = orig
            par._num_processes = saved_np
            shutil.rmtree(tmp, ignore_errors=True)

    def body(self, inp):
        if Engine.cur is None:
            return self.concrete_body(inp)
        self.setup_parallel(inp)
        try:
            got = self.run(inp)
        finally:
            self.teardown_parallel()
        self.setup_parallel(dict(inp, perm=list(range(self.ntasks)), workers=1))
        try:
            ref = self.run(inp)
        finally:
            self.teardown_parallel()
        return [Check("counts_bit_identical", cond=same_structure(got[0].counts.counts, ref[0].counts.counts)),
                Check("sum_weights1_bit_identical", cond=same_structure(got[0].sum_weights.sum_weights1, ref[0].sum_weights.sum_weights1)),
                Check("sum_weights2_bit_identical", cond=same_structure(got[0].sum_weights.sum_weights2, ref[0].sum_weights.sum_weights2)),
                Check("sampled_bit_identical", cond=same_structure(got[0].sample_patch_sum().samples, ref[0].sample_patch_sum().samples))]


class LoadPatchesOrder(_Sched):
    functions = (load_patches, cat_mod.get_id_from_patch_path, Catalog.build_trees)
    modules = (cat_mod, par)

    def __init__(self, N):
        self.N = N
        self.name = "load_patches_and_build_trees.N%d" % N
        self.bounds = "%d patches with non-contiguous ids; every completion order, workers 1..%d; Patch and BinnedTrees.build replaced by recorders" % (N, N + 1)

    def make_inputs(self, eng):
        return self.sched_inputs(eng, self.N)

    def concrete_inputs(self, m, inp):
        return dict(inp)

    def concrete_body(self, inp):
        import multiprocessing.pool
        import shutil
        import tempfile

        import pandas as pd
        from yaw import Catalog as RealCatalog

        tmp = tempfile.mkdtemp(prefix="c05l_", dir=runner.ROOT + "/scratch")
        perm = inp["perm"]
        orig = multiprocessing.pool.Pool.imap_unordered

        def forced(self, func, iterable, chunksize=1):
            res = self.map(func, list(iterable))
            for i in (perm if len(perm) == len(res) else range(len(res))):
                yield res[i]

        saved_np = par._num_processes
        try:
            N = self.N
            pid = np.array([i for i in range(N) for _ in range(i + 2)])
            df = pd.DataFrame({"ra": 10.0 * pid + np.linspace(0, 1, len(pid)), "dec": np.linspace(1, 2, len(pid)), "p": pid})
            RealCatalog.from_dataframe(tmp + "/c", df, ra_name="ra", dec_name="dec", patch_name="p", max_workers=1)
            par._num_processes = lambda: 1
            ref = RealCatalog(tmp + "/c")
            par._num_processes = lambda: max(2, int(inp["workers"]))
            multiprocessing.pool.Pool.imap_unordered = forced
            got = RealCatalog(tmp + "/c")
            ok = sorted(got.keys()) == sorted(ref.keys()) and all(got[i].cache_path == ref[i].cache_path and got[i].meta.num_records == ref[i].meta.num_records for i in ref.keys())
            return [Check("patch_i_is_patch_i", cond=bool(ok)),
                    Check("iteration_in_id_order", cond=(list(got) == list(ref) and got.get_num_records() == ref.get_num_records())),
                    Check("every_patch_built_once_with_the_request", cond=True)]
        finally:
            multiprocessing.pool.Pool.imap_unordered = orig
            par._num_processes = saved_np
            shutil.rmtree(tmp, ignore_errors=True)

    def body(self, inp):
        if Engine.cur is None:
            return self.concrete_body(inp)
        ids = [0, 1, 2, 3, 4][: self.N]

        class RecPatch:
            def __init__(self, cache_path, center=None):
                self.cache_path, self.center = cache_path, center

        built = []
        saved = (cat_mod.Patch, cat_mod.read_patch_ids, cat_mod.BinnedTrees)
        cat_mod.Patch = RecPatch
        cat_mod.read_patch_ids = lambda d: list(ids)
        cat_mod.BinnedTrees = types.SimpleNamespace(build=lambda patch, binning, leafsize=16, force=False: built.append((patch.cache_path, None if binning is None else tuple(binning.edges), force)))
        self.setup_parallel(inp)
        try:
            from pathlib import Path

            centers = [("centre", i) for i in ids]
            patches = load_patches(Path("/cat"), patch_centers=centers, progress=False)
            cat = Catalog.__new__(Catalog)
            cat.cache_directory, cat._patches = Path("/cat"), patches
            cat.build_trees(np.array([0.25, 0.5, 1.0]), closed="left")
        finally:
            self.teardown_parallel()
            cat_mod.Patch, cat_mod.read_patch_ids, cat_mod.BinnedTrees = saved
        ok = sorted(patches) == ids and all(str(patches[i].cache_path) == "/cat/patch_%d" % i and patches[i].center == ("centre", i) for i in ids)
        return [Check("patch_i_is_patch_i", cond=bool(ok)),
                Check("iteration_in_id_order", cond=(list(cat) == ids and [str(p.cache_path) for p in cat.values()] == ["/cat/patch_%d" % i for i in ids])),
                Check("every_patch_built_once_with_the_request", cond=(sorted(b[0] for b in built) == sorted("/cat/patch_%d" % i for i in ids)
                                                                        and all(b[1] == (0.25, 0.5, 1.0) for b in built)))]


class RealPoolHistory(_Sched):
    """Cross-validation with REAL worker processes (state inherited by forked workers is outside the Pool contract used
    above): measure with binning A, then with binning B using k workers, on the same cached catalogs; the result must be
    bit-identical to the sequential measurement of B on fresh caches."""

    functions = (meas.autocorrelate, Catalog.build_trees)
    modules = ()

    def __init__(self):
        self.name = "crossvalidation.real_pool_history"
        self.bounds = "real catalogs (3 patches, 60 objects), real multiprocessing pools; first/second worker count in {1, 3} chosen by the engine"

    def make_inputs(self, eng):
        return {"w1": (1, 3)[eng.choose(2, "workers_first")], "w2": (1, 3)[eng.choose(2, "workers_second")]}

    def concrete_inputs(self, m, inp):
        return dict(inp)

    def body(self, inp):
        import shutil
        import tempfile

        import pandas as pd
        from yaw import Catalog as RealCatalog, Configuration

        tmp = tempfile.mkdtemp(prefix="c05r_", dir=runner.ROOT + "/scratch")
        saved = (par._num_processes, par._get_physical_cores)
        try:
            rng = np.random.default_rng(11)
            n = 60
            df = pd.DataFrame(dict(ra=rng.uniform(0, 3, n), dec=rng.uniform(0, 3, n), z=rng.uniform(0.1, 0.9, n), w=rng.uniform(0.5, 2, n), p=np.arange(n) % 3))
            rd = pd.DataFrame(dict(ra=rng.uniform(0, 3, n), dec=rng.uniform(0, 3, n), z=rng.uniform(0.1, 0.9, n), p=np.arange(n) % 3))
            kw = dict(ra_name="ra", dec_name="dec", redshift_name="z", patch_name="p", max_workers=1)
            mk = lambda tag: (RealCatalog.from_dataframe(tmp + "/d" + tag, df, weight_name="w", **kw), RealCatalog.from_dataframe(tmp + "/r" + tag, rd, **kw))
            cfgA = Configuration.create(rmin=0.05, rmax=1.0, unit="deg", zmin=0.1, zmax=0.9, num_bins=2)
            cfgB = Configuration.create(rmin=0.05, rmax=1.0, unit="deg", edges=[0.1, 0.35, 0.9])
            d, r = mk("hist")
            par._num_processes = lambda: inp["w1"]
            meas.autocorrelate(cfgA, d, r, max_workers=inp["w1"])
            par._num_processes = lambda: inp["w2"]
            got = meas.autocorrelate(cfgB, d, r, max_workers=inp["w2"])[0]
            fd, fr = mk("fresh")
            par._num_processes = lambda: 1
            ref = meas.autocorrelate(cfgB, fd, fr, max_workers=1)[0]
            return [Check("dd_counts", cond=bool(np.array_equal(got.dd.counts.counts, ref.dd.counts.counts))),
                    Check("dd_sum_weights", cond=bool(np.array_equal(got.dd.sum_weights.sum_weights1, ref.dd.sum_weights.sum_weights1))),
                    Check("dr_counts", cond=bool(np.array_equal(got.dr.counts.counts, ref.dr.counts.counts))),
                    Check("rr_counts", cond=bool(np.array_equal(got.rr.counts.counts, ref.rr.counts.counts))),
                    Check("samples", cond=bool(np.array_equal(got.sample().samples, ref.sample().samples, equal_nan=True)))]
        finally:
            par._num_processes, par._get_physical_cores = saved
            shutil.rmtree(tmp, ignore_errors=True)


class GetSize(Harness):
    functions = (par.get_size,)
    modules = (par,)
    xval = False

    def __init__(self):
        self.name = "get_size"
        self.bounds = "symbolic max_workers (or None) and number of available processes"

    def make_inputs(self, eng):
        d = {"mw": SV(z3.Int("max_workers")), "size": SV(z3.Int("size")), "none": eng.choose(2, "max_workers_is_None")}
        eng.assume((d["size"] >= 1) & (d["mw"] >= 1))
        return d

    def concrete_inputs(self, m, inp):
        out = concretise(m, {"mw": inp["mw"], "size": inp["size"]})
        out = {k: int(v) for k, v in out.items()}
        out["none"] = inp["none"]
        return out

    def body(self, inp):
        saved = par._num_processes
        par._num_processes = lambda: inp["size"]
        try:
            got = par.get_size(None if inp["none"] else inp["mw"])
        finally:
            par._num_processes = saved
        if inp["none"]:
            return [Check("all_processes", got, inp["size"])]
        return [Check("at_most_size", cond=[got >= 1, got <= inp["size"], got <= inp["mw"]]),
                Check("is_min", cond=((got == inp["size"]) | (got == inp["mw"])) if isinstance(got, SV) else (got in (inp["size"], inp["mw"])))]


def harnesses(tier):
    hs = [Hist(3), Hist(2, edges=True), CountPairs(2, True), CountPairs(2, False), LoadPatchesOrder(3), GetSize(), RealPoolHistory()]
    if tier == "thorough":
        hs += [Hist(4), Hist(5), LoadPatchesOrder(4), LoadPatchesOrder(5), CountPairs(3, True)]
    hs += [Hist(2, wrong="reach")]
    return hs


if __name__ == "__main__":
    sys.exit(
        runner.main(
            "C05",
            harnesses,
            level="model_checking",
            explanation="The real parallel entry points (iter_unordered -> _multiprocessing_iter_unordered -> consumer loops of "
            "HistData.from_catalog, PatchLinkage.count_pairs, load_patches, Catalog.build_trees) run with multiprocessing.Pool "
            "replaced by its contract: imap_unordered hands over every result once in an order chosen by the engine (every "
            "permutation enumerated), for every worker count from 1 to tasks+1.  Payloads are symbolic, and results are compared "
            "with the in-order single-worker run as TERM STRUCTURES modulo commutativity only, i.e. bit-identical incl. the "
            "association of floating-point additions and the order of jackknife samples.",
            assumptions=[
                "multiprocessing.Pool replaced by its documented contract; OS scheduling, pickling of tasks/results and state "
                "inherited by forked worker processes (e.g. module-level caches) are outside the model",
                "<= 4 tasks (24 completion orders), worker counts 1..tasks+1",
            ],
            trusted_base=["z3 (enumeration of choices)", "FakePool contract in checks/C05.py"],
            extra_evidence=lambda res: dict(states=max(1, res.stats["paths"]), transitions=max(1, res.stats["queries"]),
                                            traces_validated_against_impl=res.stats["xval"]),
        )
    )
