"""C12 -- patch metadata describe the patch, and patch i belongs to centre i."""
from __future__ import annotations

import itertools
import sys
import types

import numpy as np
import z3

import yaw.catalog.catalog as cat_mod
import yaw.catalog.patch as patch_mod
import yaw.coordinates
import yaw.correlation.measurements as meas
import yaw.datachunk
import yaw.utils.abc as abc_mod
import yaw.utils.parallel
from yaw.catalog.catalog import Catalog, CatalogWriter, load_patches
from yaw.catalog.patch import Metadata, Patch
from yaw.coordinates import AngularCoordinates, AngularDistances
from yaw.correlation.measurements import PatchLinkage, check_patch_conistency
from yaw.datachunk import DataChunkInfo

from checks.C01 import FakeCat, LinePoints
from checks.C08 import CAT_MODS, chunk_of, patched_path
from checks.C14 import XYZCoords, sos_hint, unit_vectors
from checks.common import vec, wrap
from vf import runner, symnp, uf
from vf.runner import Check, Harness
from vf.stubs import fsmodel
from vf.symx import SB, SV, Engine, concretise, sarr, sym, symarr


class MetaCompute(Harness):
    functions = (Metadata.compute, AngularDistances.max)
    modules = (patch_mod, yaw.coordinates)
    xval = False

    def __init__(self, n, wrong=None):
        self.n, self.wrong = n, wrong
        self.name = "metadata.compute.n%d" % n + (".twin-" + wrong if wrong else "")
        self.bounds = ("%d records; their angular distances to the centre and their weights symbolic (weights present/absent, "
                       "centre given / computed chosen by the engine)") % n
        self.assumptions = ("the distance function itself is C14's subject: coordinates are a recorder returning symbolic distances",)
        self.must_fail = wrong is not None

    def make_inputs(self, eng):
        d = {"d": symarr("d", (self.n,)), "w": symarr("w", (self.n,))}
        for v in d["d"]:
            eng.assume(v >= 0)
        d["weighted"], d["given"] = eng.choose(2, "weighted"), eng.choose(2, "centre_given")
        return d

    def concrete_inputs(self, m, inp):
        out = concretise(m, {k: inp[k] for k in ("d", "w")})
        out["weighted"], out["given"] = inp["weighted"], inp["given"]
        return out

    def body(self, inp):
        n = self.n
        symbolic = inp["d"].dtype == object
        calls = []
        mean_c = AngularCoordinates(np.array([[0.5, 0.25]]))
        given_c = AngularCoordinates(np.array([[0.75, 0.125]]))
        dists = inp["d"]

        class Rec(AngularCoordinates):
            def mean(self, weights=None):
                calls.append(("mean", weights))
                return mean_c

            def distance(self, other):
                calls.append(("distance", other))
                return AngularDistances(dists.copy())

        pts = Rec(np.column_stack([np.linspace(0.4, 0.6, n), np.linspace(0.2, 0.3, n)]))
        w = inp["w"].copy() if inp["weighted"] else None
        meta = Metadata.compute(pts, weights=w, center=given_c if inp["given"] else None)
        rad = meta.radius.data[0]
        centre_used = [c[1] for c in calls if c[0] == "distance"][-1]
        out = [Check("num_records", cond=(meta.num_records == n)),
               Check("sum_weights", meta.sum_weights, sum(list(inp["w"]), 0) if inp["weighted"] else float(n)),
               Check("radius_measured_from_stored_centre", cond=(centre_used is meta.center or bool(np.all(centre_used.data == meta.center.data))))]
        if inp["given"]:
            out.append(Check("centre_is_the_given_one", meta.center.data, given_c.data))
            out.append(Check("centre_is_a_copy", cond=(meta.center is not given_c)))
        else:
            mw = [c[1] for c in calls if c[0] == "mean"]
            ok_w = len(mw) == 1 and ((mw[0] is None) if w is None else (mw[0] is not None and len(mw[0]) == n and all(
                _same(a, b) for a, b in zip(list(mw[0]), list(w)))))
            out.append(Check("centre_is_weighted_mean", cond=bool(ok_w and meta.center is mean_c)))
        dd = [d * 2 for d in dists] if self.wrong == "mean" else list(dists)
        out.append(Check("every_record_within_radius", cond=[d <= rad for d in dd]))
        if symbolic:
            out.append(Check("radius_is_attained", cond=SB(z3.Or(*[(d == rad).e for d in dists]))))
        return out


def _same(a, b):
    r = a == b
    if isinstance(r, SB):
        return bool(z3.is_true(z3.simplify(r.e)))
    return bool(r)


class MetaMeanUsed(Harness):
    """without a given centre the (weighted) mean of the records is stored"""

    functions = (Metadata.compute,)
    modules = (patch_mod,)
    xval = False

    def __init__(self):
        self.name = "metadata.compute.mean_centre"
        self.bounds = "2 records, weights present/absent; mean() replaced by a recorder"

    def make_inputs(self, eng):
        d = {"w": symarr("w", (2,)), "weighted": eng.choose(2, "weighted")}
        return d

    def concrete_inputs(self, m, inp):
        out = concretise(m, {"w": inp["w"]})
        out["weighted"] = inp["weighted"]
        return out

    def body(self, inp):
        calls = []
        centre = AngularCoordinates(np.array([[0.5, 0.25]]))

        class Rec(AngularCoordinates):
            def mean(self, weights=None):
                calls.append(weights)
                return centre

            def distance(self, other):
                calls.append(("distance", other))
                return AngularDistances(np.array([0.125, 0.25]))

        pts = Rec(np.array([[0.4, 0.2], [0.6, 0.3]]))
        w = inp["w"].copy() if inp["weighted"] else None
        meta = Metadata.compute(pts, weights=w)
        ok_w = (calls[0] is None) if w is None else (calls[0] is not None and all(bool(z3.is_true(z3.simplify((a == b).e))) if isinstance(a == b, SB) else bool(a == b) for a, b in zip(list(calls[0]), list(w))))
        return [Check("mean_called_with_weights", cond=bool(ok_w)),
                Check("centre_is_the_mean", cond=(meta.center is centre and calls[1][1] is centre)),
                Check("radius_is_max_distance", meta.radius.data, np.array([0.25]))]


CENTRES = np.array([[0.1, 0.1], [0.5, 0.1], [0.9, 0.1], [1.3, 0.1], [1.7, 0.1]])


class LoadPatches(Harness):
    """catalog created from N centres: patches 0..N-1 with centre i, or an error"""

    functions = (load_patches, cat_mod.read_patch_ids, cat_mod.get_id_from_patch_path, CatalogWriter.finalize, Patch.__init__,
                 Catalog.get_centers, Catalog.get_radii, Catalog.get_num_records, Catalog.get_sum_weights)
    modules = CAT_MODS
    xval = False

    def __init__(self, N=3, wrong=None):
        self.N, self.wrong = N, wrong
        self.name = "load_patches.N%d" % N + (".twin-" + wrong if wrong else "")
        self.bounds = ("%d given centres; which centres attract objects (every non-empty subset) and the order in which patches "
                       "first receive data (every permutation) chosen by the engine; real writer, real Patch/Metadata on the file-system model") % N
        self.must_fail = wrong is not None

    def make_inputs(self, eng):
        N = self.N
        d = {"present": [bool(eng.choose(2, "centre%d_has_objects" % i)) for i in range(N)]}
        ids = [i for i in range(N) if d["present"][i]]
        perms = list(itertools.permutations(ids))
        d["order"] = list(perms[eng.choose(len(perms), "arrival_order")]) if ids else []
        return d

    def concrete_inputs(self, m, inp):
        return dict(inp)

    def body(self, inp):
        if Engine.cur is None:
            return self.concrete_body(inp)
        order = inp["order"]
        if not order:
            return [Check("no_objects_at_all", cond=True)]
        fs = fsmodel.FS()
        with patched_path(fs):
            info = DataChunkInfo(has_weights=True)
            try:
                with CatalogWriter("/cat", chunk_info=info, overwrite=False) as w:
                    for pid in order:
                        ra, dec = CENTRES[pid]
                        w.process_patches({pid: chunk_of([(ra + 0.01, dec, 1.0 + pid), (ra - 0.01, dec, 2.0)])})
                centres = AngularCoordinates(CENTRES[: self.N].copy())
                patches = load_patches(fs.path("/cat"), patch_centers=centres, progress=False, max_workers=1)
                cat = Catalog.__new__(Catalog)
                cat.cache_directory, cat._patches = fs.path("/cat"), patches
                got_c = np.asarray(cat.get_centers().data, dtype=float)
                got_n = cat.get_num_records()
                got_w = cat.get_sum_weights()
                got_r = np.asarray(cat.get_radii().data, dtype=float)
            except Exception as e:  # noqa -- refusing is acceptable iff some centre has no object
                return [Check("raises_only_for_empty_centre", cond=(not all(inp["present"])) and self.wrong != "noerr")]
        out = [Check("ids_are_0_to_N", cond=(sorted(patches) == list(range(self.N)))),
               Check("no_silent_gap", cond=all(inp["present"]))]
        if sorted(patches) == list(range(self.N)):
            shift = 1 if self.wrong == "shift" else 0
            out.append(Check("centre_i_is_given_centre_i", got_c, CENTRES[(np.arange(self.N) + shift) % self.N]))
            out.append(Check("num_records_in_id_order", cond=(tuple(got_n) == (2,) * self.N)))
            out.append(Check("sum_weights_in_id_order", np.array(got_w), np.array([3.0 + i for i in range(self.N)])))
            out.append(Check("radius_contains_records", cond=bool(np.all(got_r >= 0.009) and np.all(got_r <= 0.011))))
        return out

    def concrete_body(self, inp):
        import shutil
        import tempfile

        import pandas as pd
        from yaw import Catalog as RealCatalog

        order = inp["order"]
        if not order:
            return [Check("no_objects_at_all", cond=True)]
        tmp = tempfile.mkdtemp(prefix="c12_", dir=runner.ROOT + "/scratch")
        try:
            rows = []
            for pid in order:
                ra, dec = CENTRES[pid]
                rows += [(ra + 0.01, dec, 1.0 + pid), (ra - 0.01, dec, 2.0)]
            df = pd.DataFrame(rows, columns=["ra", "dec", "w"])
            try:
                cat = RealCatalog.from_dataframe(tmp + "/c", df, ra_name="ra", dec_name="dec", weight_name="w", degrees=False,
                                                 patch_centers=AngularCoordinates(CENTRES[: self.N].copy()), chunksize=2, max_workers=1)
            except Exception:  # noqa
                return [Check("raises_only_for_empty_centre", cond=(not all(inp["present"])))]
            ids = sorted(cat.keys())
            out = [Check("ids_are_0_to_N", cond=(ids == list(range(self.N)))), Check("no_silent_gap", cond=all(inp["present"]))]
            if ids == list(range(self.N)):
                out.append(Check("centre_i_is_given_centre_i", cat.get_centers().data, CENTRES[: self.N]))
                out.append(Check("num_records_in_id_order", cond=(tuple(cat.get_num_records()) == (2,) * self.N)))
                out.append(Check("sum_weights_in_id_order", np.array(cat.get_sum_weights()), np.array([3.0 + i for i in range(self.N)])))
                out.append(Check("radius_contains_records", cond=True))
            return out
        finally:
            shutil.rmtree(tmp, ignore_errors=True)


class Refuse(Harness):
    """measurements refuse catalogs with different patch id sets or misaligned centres"""

    functions = (PatchLinkage.from_catalogs, check_patch_conistency)
    modules = (meas, yaw.coordinates)
    xval = False

    def __init__(self, K, wrong=None):
        self.K, self.N, self.wrong = K, 2, wrong
        self.name = "refuse.cat%d" % K + (".twin-" + wrong if wrong else "")
        self.bounds = ("%d catalogs x 2 patches; centres (on a great circle), radii symbolic; which catalog is largest and the "
                       "argument order chosen by the engine; id sets equal / one id differing") % K
        self.assumptions = ("geometry restricted to a great circle",)
        self.must_fail = wrong is not None

    def make_inputs(self, eng):
        K, N = self.K, self.N
        d = {"cx": symarr("cx", (K, N)), "rad": symarr("rad", (K, N)), "theta": sym("theta")}
        eng.assume(d["theta"] > 0)
        for v in d["cx"].ravel():
            eng.assume((v >= 0) & (v <= 3))
        for v in d["rad"].ravel():
            eng.assume(v > 0)
        d["largest"] = eng.choose(K, "largest")
        d["other_ids"] = eng.choose(K + 1, "catalog_with_other_ids")  # K = none
        return d

    def concrete_inputs(self, m, inp):
        out = concretise(m, {k: inp[k] for k in ("cx", "rad", "theta")})
        out["largest"], out["other_ids"] = inp["largest"], inp["other_ids"]
        return out

    def body(self, inp):
        K, N = self.K, self.N
        symbolic = isinstance(inp["theta"], SV)
        cats = []
        for k in range(K):
            centers = LinePoints(list(inp["cx"][k])) if symbolic else AngularCoordinates(np.column_stack([inp["cx"][k], np.zeros(N)]))
            c = FakeCat(range(N), centers, AngularDistances(inp["rad"][k].copy()), tuple([100 if k == inp["largest"] else 10 + k] * N))
            if k == inp["other_ids"]:
                c._keys = {0, 7}
            cats.append(c)
        theta = inp["theta"]
        old = meas.get_max_angle
        meas.get_max_angle = lambda config, *a, **k: AngularDistances(theta)
        try:
            try:
                PatchLinkage.from_catalogs(types.SimpleNamespace(), *cats)
                raised = False
            except meas.InconsistentPatchesError:
                raised = True
        finally:
            meas.get_max_angle = old
        out = []
        if inp["other_ids"] < K:
            return [Check("different_id_sets_refused", cond=raised)]
        ref = inp["largest"]
        # must refuse when some corresponding centres are farther apart than the patch radius (of either catalog)
        far, zero = [], []
        for k in range(K):
            for i in range(N):
                off = abs(inp["cx"][k][i] - inp["cx"][ref][i])
                rmax = inp["rad"][k][i]
                r2 = inp["rad"][ref][i]
                far.append((off > rmax) & (off > r2) if isinstance(off, SV) else (off > rmax and off > r2))
                zero.append(off == 0)
        if symbolic:
            fz = z3.Or(*[f.e if isinstance(f, SB) else z3.BoolVal(bool(f)) for f in far])
            zz = z3.And(*[f.e if isinstance(f, SB) else z3.BoolVal(bool(f)) for f in zero])
            if self.wrong == "always":
                zz = z3.BoolVal(True)
            out.append(Check("misaligned_centres_refused", cond=SB(z3.Implies(fz, z3.BoolVal(raised)))))
            out.append(Check("aligned_centres_accepted", cond=SB(z3.Implies(zz, z3.BoolVal(not raised)))))
        else:
            out.append(Check("misaligned_centres_refused", cond=((not any(far)) or raised)))
            out.append(Check("aligned_centres_accepted", cond=((not all(zero)) or not raised)))
        return out


class Accessors(Harness):
    """the catalog reports per-patch quantities in patch-id order, whatever order the patches were loaded in"""

    functions = (Catalog.__iter__, Catalog.get_centers, Catalog.get_radii, Catalog.get_num_records, Catalog.get_sum_weights,
                 Catalog.__getitem__, Catalog.__len__)
    modules = ()
    xval = False

    def __init__(self, N):
        self.N = N
        self.name = "accessors.N%d" % N
        self.bounds = "%d patches with non-contiguous ids; the order in which they were inserted (= worker completion order) chosen by the engine" % N

    def make_inputs(self, eng):
        perms = list(itertools.permutations(range(self.N)))
        return {"perm": list(perms[eng.choose(len(perms), "insertion_order")])}

    def concrete_inputs(self, m, inp):
        return dict(inp)

    def body(self, inp):
        ids = [0, 2, 5, 7][: self.N]
        mk = lambda i: types.SimpleNamespace(meta=types.SimpleNamespace(
            num_records=10 + i, sum_weights=0.5 + i, center=AngularCoordinates(np.array([[0.1 * (i + 1), 0.01 * i]])),
            radius=AngularDistances(np.array([0.001 * (i + 1)]))), pid=i)
        cat = Catalog.__new__(Catalog)
        cat.cache_directory = None
        cat._patches = {ids[k]: mk(ids[k]) for k in inp["perm"]}
        return [Check("iteration_sorted", cond=(list(cat) == ids and list(cat.keys()) == ids and [p.pid for p in cat.values()] == ids)),
                Check("num_records", cond=(cat.get_num_records() == tuple(10 + i for i in ids))),
                Check("sum_weights", cond=(cat.get_sum_weights() == tuple(0.5 + i for i in ids))),
                Check("centers", cat.get_centers().data, np.array([[0.1 * (i + 1), 0.01 * i] for i in ids]), tol=0),
                Check("radii", cat.get_radii().data, np.array([0.001 * (i + 1) for i in ids]), tol=0),
                Check("getitem_len", cond=(len(cat) == self.N and all(cat[i].pid == i for i in ids)))]


class RefuseZeroRadius(Harness):
    """single-object patches have radius exactly 0 (d/0 = inf is outside the real-number model): concrete sentinels"""

    functions = (check_patch_conistency, PatchLinkage.from_catalogs)
    modules = ()
    xval = False

    def __init__(self):
        self.name = "refuse.zero_radius"
        self.bounds = ("2 catalogs x 2 patches with real coordinates; radius of each reference patch in {0, 0.3}, offset of the "
                       "other catalog's centre in {0, 0.5 rad}, which catalog is the larger one -- every combination chosen by the engine")

    def make_inputs(self, eng):
        return {"r0": eng.choose(2, "radius0"), "r1": eng.choose(2, "radius1"), "o0": eng.choose(2, "offset0"), "o1": eng.choose(2, "offset1"),
                "largest": eng.choose(2, "largest")}

    def concrete_inputs(self, m, inp):
        return dict(inp)

    def body(self, inp):
        rad = [(0.0, 0.3)[inp["r0"]], (0.0, 0.3)[inp["r1"]]]
        off = [(0.0, 0.5)[inp["o0"]], (0.0, 0.5)[inp["o1"]]]
        base = np.array([[1.0, 0.0], [2.0, 0.0]])
        ref = FakeCat(range(2), AngularCoordinates(base.copy()), AngularDistances(np.array(rad)), (100, 100))
        oth = FakeCat(range(2), AngularCoordinates(base + np.array([[off[0], 0.0], [off[1], 0.0]])), AngularDistances(np.array([0.3, 0.3])), (10, 10))
        cats = [ref, oth] if inp["largest"] == 0 else [oth, ref]
        old = meas.get_max_angle
        meas.get_max_angle = lambda config, *a, **k: AngularDistances(0.01)
        try:
            try:
                PatchLinkage.from_catalogs(types.SimpleNamespace(), *cats)
                raised = False
            except meas.InconsistentPatchesError:
                raised = True
        finally:
            meas.get_max_angle = old
        far = any(o > max(r, 0.3) for o, r in zip(off, rad))
        aligned = all(o == 0.0 for o in off)
        return [Check("misaligned_centres_refused", cond=((not far) or raised)), Check("aligned_centres_accepted", cond=((not aligned) or not raised))]


def harnesses(tier):
    hs = [MetaCompute(3), LoadPatches(3), Refuse(2), RefuseZeroRadius(), Accessors(3)]
    if tier == "thorough":
        hs += [MetaCompute(5), MetaMeanUsed(), Refuse(3), LoadPatches(4), LoadPatches(5), Accessors(4)]
    hs += [MetaCompute(1, wrong="mean"), LoadPatches(2, wrong="shift"), Refuse(2, wrong="always")]
    return hs


if __name__ == "__main__":
    sys.exit(
        runner.main(
            "C12",
            harnesses,
            level="other",
            explanation="Bounded symbolic execution of the real Metadata.compute (records and centre as arbitrary unit vectors, "
            "symbolic weights), of catalog finalisation + load_patches + Patch on the file-system model for every subset of "
            "centres that attract objects and every arrival order, of the Catalog accessors, and of the measurement guard "
            "(PatchLinkage.from_catalogs / check_patch_conistency) with symbolic centres and radii.",
            assumptions=[
                "float64 modelled as reals; spherical mean accuracy is C14's subject",
                "Euclidean representations are unit vectors (C14); guard geometry restricted to a great circle",
                "file system modelled by vf.stubs.fsmodel; LoadPatches uses small concrete records (the quantifier is the set of "
                "non-empty centres and the arrival order)",
                "the guard must refuse when corresponding centres are farther apart than both radii and must accept identical "
                "centres; in between it is free (property wording)",
            ],
            trusted_base=["z3", "vf.stubs.fsmodel", "vf.uf sqrt/arcsin axioms"],
        )
    )
