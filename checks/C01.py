"""C01 -- pair counts are exact and complete (chain of lemmas on the real code)."""
from __future__ import annotations

import math
import sys
import types

import numpy as np
import z3

import yaw.binning
import yaw.catalog.trees as trees_mod
import yaw.coordinates
import yaw.correlation.measurements as meas
import yaw.correlation.paircounts
import yaw.cosmology
import yaw.utils.parallel
from yaw.binning import Binning
from yaw.catalog.trees import (
    AngularTree,
    dispatch_counts,
    get_ang_bins,
    get_counts_for_limits,
    logarithmic_mid,
    parse_ang_limits,
)
from yaw.correlation.measurements import PatchLinkage, PatchPaircounts

from checks.common import vec, wrap
from vf import runner, uf
from vf.runner import Check, Harness
from vf.stubs.kdtree import SpecTree
from vf.symx import SB, SV, concretise, ite, sarr, sym, symarr
from vf.symnp import FACADE

TREE_MODS = (trees_mod, yaw.coordinates, yaw.binning)


def is_symv(x):
    return isinstance(x, (SV, SB))


class MathX:
    """the handful of functions the oracles need, in whichever mode the inputs are"""

    @staticmethod
    def chord(theta):
        if isinstance(theta, SV):
            return 2.0 * uf.sin(theta / 2.0)
        return 2.0 * math.sin(theta / 2.0)

    @staticmethod
    def log10(x):
        return uf.log10(x) if isinstance(x, SV) else math.log10(x)

    @staticmethod
    def exp10(x):
        return uf.exp10(x) if isinstance(x, SV) else 10.0**x

    @staticmethod
    def power(x, a):
        if isinstance(x, SV) or isinstance(a, SV):
            return uf.power(x if isinstance(x, SV) else SV(z3.RealVal(str(x))), a)
        return x**a

    @staticmethod
    def sort_unique(vals):
        if any(isinstance(v, SV) for v in vals):
            return list(FACADE.unique(sarr(vals)))
        return list(np.unique(np.array(vals, dtype=float)))


def make_tree(tree, weights, n):
    t = AngularTree.__new__(AngularTree)
    t.tree, t.weights, t.num_records = tree, weights, n
    t.sum_weights = None
    return t


def wsum(conds, vals):
    tot = 0.0
    for c, v in zip(conds, vals):
        if isinstance(c, SB):
            tot = tot + ite(c, v, 0.0)
        elif c:
            tot = tot + v
    return tot


LAYOUTS = {"staggered": "overlapping scales lo0<lo1<hi0<hi1", "nested": "nested scales lo0<lo1<hi1<hi0", "disjoint": "disjoint scales hi0<lo1",
           "adjacent": "adjacent scales hi0==lo1", "same_lower": "scales sharing the lower limit"}


class TreeCount(Harness):
    """L1: AngularTree.count post-processing over the specification tree"""

    functions = (AngularTree.count, parse_ang_limits, get_ang_bins, logarithmic_mid, dispatch_counts, get_counts_for_limits)
    modules = TREE_MODS
    xval = False

    def __init__(self, n1, n2, S, res=None, wrong=None, staggered=False):  # staggered: False or a layout name
        self.n1, self.n2, self.S, self.res, self.wrong, self.staggered = n1, n2, S, res, wrong, staggered
        self.layout = "staggered" if staggered is True else staggered
        self.name = "treecount.%dx%d.S%d.%s" % (n1, n2, S, "unweighted-sep" if res is None else "rweight.res%d" % res) + (
            "." + self.layout if staggered else "") + (".twin-" + wrong if wrong else "")
        self.bounds = ("points=%dx%d scales=%d (limits symbolic, %s) %s; pair chords, point weights symbolic; "
                       "weights present/absent per tree chosen by the engine") % (
            n1, n2, S, LAYOUTS[self.layout] if staggered else "may overlap in any way",
            "no separation weighting" if res is None else "separation weighting alpha symbolic, resolution=%d" % res)
        self.assumptions = ("0 < ang_min < ang_max <= pi", "pair separations given as chord lengths in [0,2] "
                            "(angle<->chord strictly increasing: C14)")
        self.must_fail = wrong is not None
        self.max_paths = 6000

    def make_inputs(self, eng):
        d = {"D": symarr("d", (self.n1, self.n2)), "w1": symarr("w", (self.n1,)), "w2": symarr("v", (self.n2,)),
             "amin": symarr("lo", (self.S,)), "amax": symarr("hi", (self.S,))}
        for x in d["D"].ravel():
            eng.assume((x >= 0) & (x <= 2))
        PI = uf.pi()
        for s in range(self.S):
            eng.assume((d["amin"][s] > 0) & (d["amin"][s] < d["amax"][s]) & (d["amax"][s] <= PI))
        for s in range(self.S - 1) if self.staggered else ():
            a0, b0, a1, b1 = d["amin"][s], d["amax"][s], d["amin"][s + 1], d["amax"][s + 1]
            eng.assume({"staggered": (a0 < a1) & (a1 < b0) & (b0 < b1), "nested": (a0 < a1) & (b1 < b0), "disjoint": b0 < a1,
                        "adjacent": b0 == a1, "same_lower": (a0 == a1) & (b0 < b1)}[self.layout])
        if self.res is not None:
            d["alpha"] = sym("alpha")
        d["has_w1"] = eng.choose(2, "has_w1")
        d["has_w2"] = eng.choose(2, "has_w2")
        return d

    def concrete_inputs(self, m, inp):
        out = concretise(m, {k: v for k, v in inp.items() if not k.startswith("has_")})
        out["has_w1"], out["has_w2"] = inp["has_w1"], inp["has_w2"]
        return out

    def body(self, inp):
        with uf.light_trig():
            return self._body(inp)

    def _body(self, inp):
        D, amin, amax = inp["D"], inp["amin"], inp["amax"]
        w1 = inp["w1"] if inp["has_w1"] else None
        w2 = inp["w2"] if inp["has_w2"] else None
        n1, n2, S = self.n1, self.n2, self.S
        symbolic = D.dtype == object
        DD = D if symbolic else np.asarray(D, dtype=float)
        t1 = make_tree(SpecTree(D=DD), w1, n1)
        t2 = make_tree(SpecTree(data=np.zeros((n2, 3))), w2, n2)
        kw = {}
        if self.res is not None:
            kw = dict(weight_scale=inp["alpha"], weight_res=self.res)
        old = trees_mod.KDTree
        got = t1.count(t2, amin.copy(), amax.copy(), **kw)
        X = MathX
        pw = [[(w1[i] if w1 is not None else 1.0) * (w2[j] if w2 is not None else 1.0) for j in range(n2)] for i in range(n1)]
        out = [Check("shape", cond=(np.shape(got) == (S,)))]
        if self.res is None:
            for s in range(S):
                lo, hi = X.chord(amin[s]), X.chord(amax[s])
                if self.wrong == "closed":
                    conds = [(lo <= D[i, j]) & (D[i, j] < hi) for i in range(n1) for j in range(n2)]
                else:
                    conds = [(lo < D[i, j]) & (D[i, j] <= hi) for i in range(n1) for j in range(n2)]
                exp = wsum(conds, [pw[i][j] for i in range(n1) for j in range(n2)])
                out.append(Check("scale%d" % s, got[s], exp))
        else:
            alpha = inp["alpha"]
            logs = [X.log10(a) for a in list(amin) + list(amax)]
            lmin, lmax = logs[0], logs[0]
            for v in logs[1:]:
                if v < lmin:
                    lmin = v
                if v > lmax:
                    lmax = v
            grid = [lmin + (lmax - lmin) * k / self.res for k in range(self.res + 1)]  # exact rationals (k/res as a float is not)
            L = X.sort_unique(grid + logs)
            E = [X.exp10(v) for v in L]
            mids = [X.exp10((L[m] + L[m + 1]) / 2.0) for m in range(len(L) - 1)]
            pws = [X.power(mid, alpha) for mid in mids]
            norm = sum(pws[1:], pws[0])
            R = [X.chord(e) for e in E]
            for s in range(S):
                tot = 0.0
                for m in range(len(mids)):
                    inside = bool(E[m] >= amin[s]) and bool(E[m + 1] <= amax[s])
                    if not inside:
                        continue
                    conds = [(R[m] < D[i, j]) & (D[i, j] <= R[m + 1]) for i in range(n1) for j in range(n2)]
                    tot = tot + wsum(conds, [pw[i][j] for i in range(n1) for j in range(n2)]) * pws[m]
                out.append(Check("scale%d_proportional" % s, got[s] * norm, tot, tol=1e-7))
        if self.wrong == "reach":
            out.append(Check("reach", cond=False))
        return out

    def replay(self, cinp, what):
        return super().replay(cinp, what)


class EmptyTree(Harness):
    functions = (AngularTree.count, AngularTree.empty)
    modules = TREE_MODS
    xval = False

    def __init__(self):
        self.name = "treecount.empty"
        self.bounds = "an empty tree on either side, 1 scale, with and without separation weighting"

    def make_inputs(self, eng):
        d = {"amin": symarr("lo", (1,)), "amax": symarr("hi", (1,)), "w": symarr("w", (1,))}
        PI = uf.pi()
        for s in range(1):
            eng.assume((d["amin"][s] > 0) & (d["amin"][s] < d["amax"][s]) & (d["amax"][s] <= PI))
        d["which"] = eng.choose(3, "empty_side")
        d["weighted"] = eng.choose(2, "weighted")
        d["rweight"] = eng.choose(2, "rweight")
        return d

    def concrete_inputs(self, m, inp):
        out = concretise(m, {k: inp[k] for k in ("amin", "amax", "w")})
        out.update({k: inp[k] for k in ("which", "weighted", "rweight")})
        return out

    def body(self, inp):
        with uf.light_trig():
            hw = bool(inp["weighted"])
            full = make_tree(SpecTree(data=np.zeros((1, 3)), D=None), inp["w"] if hw else None, 1)
            e = AngularTree.empty(has_weights=hw)
            pairs = [(e, full), (full, e), (e, e)][int(inp["which"])]
            kw = dict(weight_scale=-1.0, weight_res=3) if inp["rweight"] else {}
            got = pairs[0].count(pairs[1], inp["amin"].copy(), inp["amax"].copy(), **kw)
            return [Check("zeros", got, np.zeros(1)), Check("empty_meta", cond=(e.num_records == 0 and e.sum_weights == 0.0))]


class PairIteration(Harness):
    """L3: every linked patch pair is visited exactly once"""

    functions = (PatchLinkage.iter_patch_id_pairs, PatchLinkage.get_patch_pairs)
    modules = (meas,)
    xval = False

    def __init__(self, N, auto, wrong=None):
        self.N, self.auto, self.wrong = N, auto, wrong
        self.name = "pairs.N%d.%s" % (N, "auto" if auto else "cross") + (".twin-" + wrong if wrong else "")
        self.bounds = "patches=%d; the symmetric link relation (one Boolean per unordered pair) is a solver variable" % N
        self.must_fail = wrong is not None

    def make_inputs(self, eng):
        d = {}
        for i in range(self.N):
            for j in range(i + 1, self.N):
                d["l%d_%d" % (i, j)] = bool(SB(z3.Bool("link_%d_%d" % (i, j))))
        return d

    def concrete_inputs(self, m, inp):
        return dict(inp)

    def body(self, inp):
        N = self.N
        links = {i: {i} for i in range(N)}
        for i in range(N):
            for j in range(i + 1, N):
                if inp["l%d_%d" % (i, j)]:
                    links[i].add(j)
                    links[j].add(i)
        cfg = types.SimpleNamespace()
        pl = PatchLinkage.__new__(PatchLinkage)
        pl.config, pl.patch_links = cfg, {i: set(v) for i, v in links.items()}
        got = list(pl.iter_patch_id_pairs(auto=self.auto))
        exp = sorted((i, j) for i in range(N) for j in links[i] if (not self.auto or j >= i))
        if self.wrong == "ordered":
            exp = sorted((i, j) for i in range(N) for j in links[i])
        out = [Check("each_linked_pair_once", cond=(sorted(got) == exp)),
               Check("diagonal_first", cond=(got[:N] == [(i, i) for i in range(N)])),
               Check("links_not_consumed", cond=(pl.patch_links == links))]
        cat = {i: "p%d" % i for i in range(N)}
        pp = pl.get_patch_pairs(cat) if self.auto else pl.get_patch_pairs(cat, {i: "q%d" % i for i in range(N)})
        out.append(Check("patch_pairs_match_ids", cond=all(
            p.patch1 == "p%d" % p.id1 and p.patch2 == ("p%d" if self.auto else "q%d") % p.id2 for p in pp)
            and sorted((p.id1, p.id2) for p in pp) == exp))
        return out


class Accumulate(Harness):
    """L4: count_pairs puts every payload into the right cell"""

    functions = (PatchLinkage.count_pairs, PatchLinkage.count_pairs_optional, yaw.correlation.paircounts.PatchedCounts.set_patch_pair,
                 yaw.correlation.paircounts.PatchedSumWeights.__init__)
    modules = (meas, yaw.correlation.paircounts, yaw.binning, yaw.utils.parallel)

    def __init__(self, N, B, S, auto, wrong=None):
        self.N, self.B, self.S, self.auto, self.wrong = N, B, S, auto, wrong
        self.name = "accumulate.N%dB%dS%d.%s" % (N, B, S, "auto" if auto else "cross") + (".twin-" + wrong if wrong else "")
        self.bounds = "patches=%d bins=%d scales=%d; per-pair payloads symbolic; link relation chosen by the engine" % (N, B, S)
        self.must_fail = wrong is not None

    def make_inputs(self, eng):
        N, B, S = self.N, self.B, self.S
        d = {"counts": symarr("c", (N, N, S, B)), "sw1": symarr("a", (N, B)), "sw2": symarr("b", (N, B))}
        for i in range(N):
            for j in range(i + 1, N):
                d["l%d_%d" % (i, j)] = bool(SB(z3.Bool("link_%d_%d" % (i, j))))
        return d

    def concrete_inputs(self, m, inp):
        out = concretise(m, {k: inp[k] for k in ("counts", "sw1", "sw2")})
        out.update({k: v for k, v in inp.items() if k.startswith("l")})
        return out

    def body(self, inp):
        N, B, S, auto = self.N, self.B, self.S, self.auto
        links = {i: {i} for i in range(N)}
        for i in range(N):
            for j in range(i + 1, N):
                if inp["l%d_%d" % (i, j)]:
                    links[i].add(j)
                    links[j].add(i)
        binning = Binning(0.25 + 0.25 * np.arange(B + 1))
        cfg = types.SimpleNamespace(binning=types.SimpleNamespace(binning=binning), scales=types.SimpleNamespace(num_scales=S))
        pl = PatchLinkage.__new__(PatchLinkage)
        pl.config, pl.patch_links = cfg, links
        C, sw1, sw2 = inp["counts"], inp["sw1"], inp["sw2"]
        sw2_eff = sw1 if auto else sw2

        def fake_process(pair, config):
            return PatchPaircounts(pair.id1, pair.id2, sw1[pair.id1].copy(), sw2_eff[pair.id2].copy(), C[pair.id1, pair.id2].copy())

        cat1 = {i: "p%d" % i for i in range(N)}
        cat2 = {i: "q%d" % i for i in range(N)}
        old = meas.process_patch_pair
        meas.process_patch_pair = fake_process
        try:
            res = pl.count_pairs(cat1, max_workers=1) if auto else pl.count_pairs(cat1, cat2, max_workers=1)
            none = pl.count_pairs_optional(None, cat2, max_workers=1)
        finally:
            meas.process_patch_pair = old
        out = [Check("one_container_per_scale", cond=(len(res) == S and none == [None] * S))]
        for s in range(S):
            exp = np.zeros((B, N, N), dtype=object)
            for i in range(N):
                for j in links[i]:
                    if auto and j < i:
                        continue
                    for b in range(B):
                        v = C[i, j, s, b]
                        if auto and i == j and self.wrong != "nohalf":
                            v = v * 0.5
                        exp[b, i, j] = v
            out.append(Check("counts_scale%d" % s, res[s].counts.counts, wrap(exp)))
            out.append(Check("auto_flag%d" % s, cond=(res[s].auto == auto and res[s].sum_weights.auto == auto)))
        out.append(Check("sum_weights1", res[0].sum_weights.sum_weights1, wrap(np.asarray(sw1).T)))
        out.append(Check("sum_weights2", res[0].sum_weights.sum_weights2, wrap(np.asarray(sw2_eff).T)))
        return out



# ---------------------------------------------------------------------------------------------
# L2: the patch linkage is conservative


class LinePoints:
    """points on a great circle (the equator): position x in [0, pi); angular distance |x - y|.
    Symbolic stand-in for AngularCoordinates in from_catalogs / check_patch_conistency (only .distance,
    iteration and len are used there)."""

    def __init__(self, xs):
        self.xs = list(xs)

    def __len__(self):
        return len(self.xs)

    def __iter__(self):
        for x in self.xs:
            yield LinePoints([x])

    def distance(self, other):
        from yaw.coordinates import AngularDistances

        if len(other.xs) == 1:
            pairs = [(x, other.xs[0]) for x in self.xs]
        else:
            pairs = list(zip(self.xs, other.xs))
        return AngularDistances(sarr([abs(a - b) for a, b in pairs]))


class FakeCat:
    def __init__(self, ids, centers, radii, nrec):
        self._ids, self._c, self._r, self._n = list(ids), centers, radii, nrec

    def keys(self):
        return set(self._ids) if not hasattr(self, "_keys") else self._keys

    def __iter__(self):
        return iter(sorted(self._ids))

    def get_centers(self):
        return self._c

    def get_radii(self):
        return self._r

    def get_num_records(self):
        return self._n


UNITS = ("rad", "arcmin", "kpc", "Mpc", "kpc/h", "Mpc/h")


def theta_of(r, unit, z, cosmo):
    """documented conversion r / D(z) -- the oracle"""
    if unit == "rad":
        return r
    if unit in ("deg", "arcmin", "arcsec"):
        f = {"deg": 1.0, "arcmin": 60.0, "arcsec": 3600.0}[unit]
        pi = uf.pi() if isinstance(r, SV) or isinstance(z, SV) else math.pi
        return r / f * pi / 180.0
    if unit in ("kpc", "Mpc"):
        rr = r / 1000.0 if unit == "kpc" else r
        return rr / cosmo.angular_diameter_distance(z)
    rr = r / 1000.0 if unit == "kpc/h" else r
    return rr / cosmo.comoving_distance(z)


class MaxAngle(Harness):
    """L2a: the pruning angle is at least the largest angle used for pair counting in any bin"""

    functions = (meas.get_max_angle, yaw.cosmology.Scales.get_angle_radian, yaw.cosmology.PhysicalScales._compute_angle,
                 yaw.cosmology.ComovingScales._compute_angle, yaw.cosmology.AngularScales._compute_angle,
                 yaw.cosmology.new_scales, yaw.cosmology.Scales._set_scales)
    modules = (meas, yaw.coordinates, yaw.cosmology, yaw.binning)
    xval = False

    def __init__(self, B, S, unit, wrong=None):
        self.B, self.S, self.unit, self.wrong = B, S, unit, wrong
        self.name = "maxangle.B%d.S%d.%s" % (B, S, unit.replace("/", "_")) + (".twin-" + wrong if wrong else "")
        self.bounds = "bins=%d scales=%d unit=%s; bin edges, scale limits and the cosmology's distance function symbolic" % (B, S, unit)
        self.assumptions = ("zmin > 0", "comoving distance strictly increasing with D_C(0)=0; D_A = D_C/(1+z); nothing else "
                            "is assumed about the cosmology")
        self.must_fail = wrong is not None

    def make_inputs(self, eng):
        from vf.stubs.cosmology import UFCosmology

        d = {"edges": symarr("e", (self.B + 1,)), "rmin": symarr("rmin", (self.S,)), "rmax": symarr("rmax", (self.S,))}
        eng.assume(d["edges"][0] > 0)
        for b in range(self.B):
            eng.assume(d["edges"][b] < d["edges"][b + 1])
        for s_ in range(self.S):
            eng.assume((d["rmin"][s_] > 0) & (d["rmin"][s_] < d["rmax"][s_]))
        d["_cosmo"] = UFCosmology()
        return d

    def concrete_inputs(self, m, inp):
        from vf.stubs.cosmology import TableCosmology
        from vf.symx import model_value

        out = concretise(m, {k: inp[k] for k in ("edges", "rmin", "rmax")})
        cosmo = inp["_cosmo"]
        table = []
        for a in getattr(cosmo, "_seen", []):
            table.append((float(model_value(m, a)), float(model_value(m, cosmo.f(a)))))
        out["_cosmo"] = TableCosmology(table)
        out["cosmo_table"] = [list(t) for t in table]
        return out

    def body(self, inp):
        cosmo = inp["_cosmo"]
        if not hasattr(cosmo, "comoving_distance"):
            from vf.stubs.cosmology import TableCosmology

            cosmo = TableCosmology([tuple(t) for t in np.asarray(inp.get("cosmo_table", [])).reshape(-1, 2)])
        e = inp["edges"]
        if isinstance(e[0], SV):
            cosmo._seen = Engine_apps(cosmo)
        binning = Binning(e.copy())
        scales = yaw.cosmology.new_scales(inp["rmin"].copy(), inp["rmax"].copy(), unit=self.unit)
        cfg = types.SimpleNamespace(
            binning=types.SimpleNamespace(binning=binning, zmin=e[0], zmax=e[-1], edges=e),
            scales=types.SimpleNamespace(scales=scales, num_scales=self.S), cosmology=cosmo)
        got = meas.get_max_angle(cfg).data[0]
        out = []
        for b in range(self.B):
            zmid = (e[b] + e[b + 1]) / 2.0
            if self.wrong == "edge":
                zmid = e[b] / 2.0
            for s_ in range(self.S):
                out.append(Check("covers_bin%d_scale%d" % (b, s_), cond=(got >= theta_of(inp["rmax"][s_], self.unit, zmid, cosmo))))
        return out


class Linkage(Harness):
    """L2b: with the pruning angle theta, no pair of objects closer than theta is in an unlinked patch pair"""

    functions = (PatchLinkage.from_catalogs, meas.check_patch_conistency)
    modules = (meas, yaw.coordinates, yaw.binning)
    xval = False

    def __init__(self, ncat, N=2, wrong=None):
        self.ncat, self.N, self.wrong = ncat, N, wrong
        self.name = "linkage.cat%d.N%d" % (ncat, N) + (".twin-" + wrong if wrong else "")
        self.bounds = ("patches=%d catalogs=%d; pruning angle, patch centres of every catalog (on a great circle), radii, "
                       "two witness objects symbolic; which catalog is the largest, the witnesses' catalogs and patches chosen "
                       "by the engine") % (N, ncat)
        self.assumptions = ("geometry restricted to points on one great circle (so that counterexamples replay with real "
                            "coordinates)", "witness objects lie within the stored radius of their own patch centre")
        self.must_fail = wrong is not None

    def make_inputs(self, eng):
        N, K = self.N, self.ncat
        d = {"theta": sym("theta"), "cx": symarr("cx", (K, N)), "rad": symarr("rad", (K, N)), "px": sym("px"), "qx": sym("qx")}
        eng.assume(d["theta"] > 0)
        for v in list(d["cx"].ravel()) + [d["px"], d["qx"]]:
            eng.assume((v >= 0) & (v <= 3))
        for v in d["rad"].ravel():
            eng.assume(v > 0)
        d["largest"] = eng.choose(K, "largest_catalog")
        d["wcat_p"], d["wcat_q"] = eng.choose(K, "cat_of_p"), eng.choose(K, "cat_of_q")
        d["wi"], d["wj"] = eng.choose(N, "patch_of_p"), eng.choose(N, "patch_of_q")
        return d

    def concrete_inputs(self, m, inp):
        out = concretise(m, {k: inp[k] for k in ("theta", "cx", "rad", "px", "qx")})
        for k in ("largest", "wcat_p", "wcat_q", "wi", "wj"):
            out[k] = inp[k]
        return out

    def body(self, inp):
        from yaw.coordinates import AngularCoordinates, AngularDistances

        N, K = self.N, self.ncat
        symbolic = isinstance(inp["theta"], SV)
        cats = []
        for k in range(K):
            if symbolic:
                centers = LinePoints(list(inp["cx"][k]))
            else:
                centers = AngularCoordinates(np.column_stack([inp["cx"][k], np.zeros(N)]))
            radii = AngularDistances(inp["rad"][k].copy())
            nrec = tuple([100 if k == int(inp["largest"]) else 10 + k] * N)
            cats.append(FakeCat(range(N), centers, radii, nrec))
        theta = inp["theta"]
        old = meas.get_max_angle
        meas.get_max_angle = lambda config, *a, **k: AngularDistances(theta)
        try:
            try:
                links = PatchLinkage.from_catalogs(types.SimpleNamespace(), *cats).patch_links
            except meas.InconsistentPatchesError:
                return [Check("misaligned_centres_rejected", cond=True)]
        finally:
            meas.get_max_angle = old
        kp, kq, i, j = int(inp["wcat_p"]), int(inp["wcat_q"]), int(inp["wi"]), int(inp["wj"])
        px, qx = inp["px"], inp["qx"]
        lim = theta if self.wrong != "reach" else -1.0
        pre = [abs(px - inp["cx"][kp][i]) <= inp["rad"][kp][i], abs(qx - inp["cx"][kq][j]) <= inp["rad"][kq][j],
               abs(px - qx) <= lim]
        out = [Check("close_pair_never_pruned", cond=implies(pre, j in links[i])),
               Check("links_symmetric_with_diagonal", cond=(all(ii in links[ii] for ii in range(N)) and all(
                   (jj in links[ii]) == (ii in links[jj]) for ii in range(N) for jj in range(N))))]
        if self.wrong == "reach":
            out.append(Check("reach", cond=False))
        return out


class ProcessPair(Harness):
    """L4a: process_patch_pair counts bin b of patch 1 against (bin b of | the unbinned) patch 2 at the angles of the bin centre"""

    functions = (meas.process_patch_pair, yaw.cosmology.Scales.get_angle_radian)
    modules = (meas, yaw.coordinates, yaw.cosmology, yaw.binning)
    xval = False

    def __init__(self, B, S, unit, binned2):
        self.B, self.S, self.unit, self.binned2 = B, S, unit, binned2
        self.name = "processpair.B%dS%d.%s.%s" % (B, S, unit.replace("/", "_"), "auto" if binned2 else "cross")
        self.bounds = "bins=%d scales=%d unit=%s second patch %s; edges, scale limits, tree results, weight sums symbolic" % (
            B, S, unit, "binned" if binned2 else "unbinned")
        self.assumptions = ("trees replaced by recorders returning fresh symbolic counts (the counting itself is lemma L1)",)

    def make_inputs(self, eng):
        from vf.stubs.cosmology import UFCosmology

        d = {"edges": symarr("e", (self.B + 1,)), "rmin": symarr("rmin", (self.S,)), "rmax": symarr("rmax", (self.S,)),
             "res": symarr("cnt", (self.B, self.S)), "sw1": symarr("sa", (self.B,)), "sw2": symarr("sb", (self.B,))}
        eng.assume(d["edges"][0] > 0)
        for b in range(self.B):
            eng.assume(d["edges"][b] < d["edges"][b + 1])
        for s_ in range(self.S):
            eng.assume((d["rmin"][s_] > 0) & (d["rmin"][s_] < d["rmax"][s_]))
        d["_cosmo"] = UFCosmology()
        d["empty"] = [eng.choose(2, "tree%d_empty" % i) for i in range(2 * self.B)]
        return d

    def concrete_inputs(self, m, inp):
        from vf.stubs.cosmology import TableCosmology
        from vf.symx import model_value

        out = concretise(m, {k: v for k, v in inp.items() if k not in ("_cosmo", "empty")})
        out["empty"] = inp["empty"]
        cosmo = inp["_cosmo"]
        table = [(float(model_value(m, a)), float(model_value(m, cosmo.f(a)))) for a in getattr(cosmo, "_seen", [])]
        out["_cosmo"] = TableCosmology(table)
        out["cosmo_table"] = [list(t) for t in table]
        return out

    def body(self, inp):
        B, S = self.B, self.S
        cosmo = inp["_cosmo"]
        if not hasattr(cosmo, "comoving_distance"):
            from vf.stubs.cosmology import TableCosmology

            cosmo = TableCosmology([tuple(t) for t in np.asarray(inp.get("cosmo_table", [])).reshape(-1, 2)])
        e = inp["edges"]
        if isinstance(e[0], SV):
            cosmo._seen = Engine_apps(cosmo)
        log = []

        empties = inp.get("empty", [0] * (2 * B))

        class T:
            """recorder with the public attributes of AngularTree (an empty tree: no records, zero weight sum, no KD-tree)"""

            def __init__(self, b, side, sw, empty=False):
                self.b, self.side, self.is_empty = b, side, bool(empty)
                self.sum_weights = 0.0 if empty else sw
                self.num_records = 0 if empty else 5
                self.tree = None if empty else object()
                self.weights = None
                self.data = np.empty((0, 3)) if empty else np.zeros((5, 3))

            def count(self, other, ang_min, ang_max, *, weight_scale=None, weight_res=50):
                log.append((self.b, other.b, other.side, ang_min, ang_max, weight_scale, weight_res))
                if self.is_empty or other.is_empty:
                    return np.zeros(S)
                return inp["res"][self.b].copy()

            def __len__(self):
                return self.num_records

        trees1 = [T(b, 1, inp["sw1"][b], empties[b]) for b in range(B)]
        trees2 = [T(b, 2, inp["sw2"][b], empties[B + b]) for b in range(B)] if self.binned2 else None
        single2 = T(-1, 2, inp["sw2"][0])

        class FakeBinned:
            def __init__(self, patch):
                self.patch = patch

            def __iter__(self):
                if self.patch == "P1":
                    return iter(trees1)
                if trees2 is not None:
                    return iter(trees2)
                import itertools

                return itertools.repeat(single2)

        cfg = types.SimpleNamespace(
            binning=types.SimpleNamespace(binning=Binning(e.copy())),
            scales=types.SimpleNamespace(scales=yaw.cosmology.new_scales(inp["rmin"].copy(), inp["rmax"].copy(), unit=self.unit),
                                         num_scales=S, rweight=-0.5, resolution=7),
            cosmology=cosmo)
        old = meas.BinnedTrees
        meas.BinnedTrees = FakeBinned
        try:
            r = meas.process_patch_pair(meas.PatchPair(3, 5, "P1", "P2"), cfg)
        finally:
            meas.BinnedTrees = old
        e1 = [bool(empties[b]) for b in range(B)]
        e2 = [bool(empties[B + b]) if self.binned2 else False for b in range(B)]
        exp_counts = wrap(np.array([[0.0 if (e1[b] or e2[b]) else inp["res"][b][s_] for b in range(B)] for s_ in range(S)], dtype=object)) \
            if isinstance(inp["res"][0][0], SV) else np.array([[0.0 if (e1[b] or e2[b]) else inp["res"][b][s_] for b in range(B)] for s_ in range(S)])
        out = [Check("ids", cond=(r.id1 == 3 and r.id2 == 5)),
               Check("counts", r.counts, exp_counts),
               Check("sum_weights1", r.sum_weights1, vec(lambda b: 0.0 if e1[b] else inp["sw1"][b], B)),
               Check("sum_weights2", r.sum_weights2, vec(lambda b: (0.0 if e2[b] else inp["sw2"][b]) if self.binned2 else inp["sw2"][0], B))]
        if len(log) != B:  # bins may only be skipped when nothing can be counted there
            out.append(Check("all_bins_visited_or_trivially_empty", cond=all((e1[b] or e2[b]) or any(l[0] == b for l in log) for b in range(B))))
        for rec in log:
            b = rec[0]
            zmid = (e[b] + e[b + 1]) / 2.0
            out.append(Check("bin%d_trees" % b, cond=(rec[0] == b and rec[2] == 2 and rec[1] == (b if self.binned2 else -1))))
            out.append(Check("bin%d_ang_min" % b, rec[3], vec(lambda s_: theta_of(inp["rmin"][s_], self.unit, zmid, cosmo), S)))
            out.append(Check("bin%d_ang_max" % b, rec[4], vec(lambda s_: theta_of(inp["rmax"][s_], self.unit, zmid, cosmo), S)))
            out.append(Check("bin%d_weighting" % b, cond=(rec[5] == -0.5 and rec[6] == 7)))
        return out


class Wiring(Harness):
    """L5-lite: crosscorrelate / autocorrelate hand the right catalogs to tree building, linkage and pair counting and
    assemble DD/DR/RD/RR accordingly (the counting itself is L1-L4)"""

    functions = (meas.crosscorrelate, meas.autocorrelate, PatchLinkage.count_pairs_optional)
    modules = (meas,)
    xval = False

    def __init__(self, wrong=None):
        self.wrong = wrong
        self.name = "wiring" + (".twin-" + wrong if wrong else "")
        self.bounds = ("auto / cross; which random catalogs are supplied (4 combinations) / count_rr; closed side; 1-2 scales -- "
                       "chosen by the engine; catalogs, linkage and pair counting replaced by recorders")
        self.must_fail = wrong is not None

    def make_inputs(self, eng):
        return {"auto": eng.choose(2, "auto"), "randoms": eng.choose(4, "randoms_supplied"), "closed": eng.choose(2, "closed"),
                "scales": 1 + eng.choose(2, "num_scales")}

    def concrete_inputs(self, m, inp):
        return dict(inp)

    def body(self, inp):
        from yaw.correlation.corrfunc import CorrFunc
        from yaw.correlation.paircounts import NormalisedCounts, PatchedCounts, PatchedSumWeights

        S = inp["scales"]
        closed = ("right", "left")[inp["closed"]]
        edges = np.array([0.25, 0.5, 1.0])
        binning = Binning(edges, closed=closed)
        cfg = types.SimpleNamespace(binning=types.SimpleNamespace(edges=edges, closed=closed, binning=binning),
                                    scales=types.SimpleNamespace(num_scales=S, rweight=None), max_workers=None, cosmology=None)
        log = []

        class Cat:
            def __init__(self, cid):
                self.cid = cid

            def build_trees(self, binning=None, *, closed="right", leafsize=16, force=False, progress=False, max_workers=None):
                log.append(("build", self.cid, None if binning is None else tuple(binning), str(closed)))

        def token(c1, c2, s, auto):
            val = 100.0 * c1 + 10.0 * c2 + s
            return NormalisedCounts(PatchedCounts(binning, np.full((2, 2, 2), val), auto=auto),
                                    PatchedSumWeights(binning, np.ones((2, 2)), np.ones((2, 2)), auto=auto))

        class FakeLinkage(PatchLinkage):
            def __init__(self):
                self.config = cfg

            @classmethod
            def from_catalogs(cls, config, catalog, *catalogs):
                log.append(("link", tuple(c.cid for c in (catalog,) + catalogs)))
                return cls()

            def count_pairs(self, main_catalog, *optional_catalog, progress=False, max_workers=None):
                auto = len(optional_catalog) == 0
                c2 = main_catalog.cid if auto else optional_catalog[0].cid
                log.append(("count", main_catalog.cid, None if auto else c2))
                return [token(main_catalog.cid, c2, s, auto) for s in range(S)]

        def ident(nc):
            return None if nc is None else (int(nc.counts.counts[0, 0, 0]) // 100, (int(nc.counts.counts[0, 0, 0]) // 10) % 10)

        old = meas.PatchLinkage
        meas.PatchLinkage = FakeLinkage
        out = []
        try:
            if inp["auto"]:
                data, rand = Cat(1), Cat(3)
                count_rr = bool(inp["randoms"] & 1)
                cfs = meas.autocorrelate(cfg, data, rand, count_rr=count_rr)
                exp = dict(dd=(1, 1), dr=(1, 3), rd=None, rr=(3, 3) if count_rr else None)
                exp_build = {(1, tuple(edges), closed), (3, tuple(edges), closed)}
                exp_link = {1, 3}
            else:
                ref, unk, rr_, ur = Cat(1), Cat(2), Cat(3), Cat(4)
                has_rr, has_ur = bool(inp["randoms"] & 1), bool(inp["randoms"] & 2)
                if not has_rr and not has_ur:
                    try:
                        meas.crosscorrelate(cfg, ref, unk)
                    except ValueError:
                        return [Check("no_randoms_rejected", cond=True)]
                    return [Check("no_randoms_rejected", cond=False)]
                cfs = meas.crosscorrelate(cfg, ref, unk, ref_rand=rr_ if has_rr else None, unk_rand=ur if has_ur else None)
                exp = dict(dd=(1, 2), dr=(1, 4) if has_ur else None, rd=(3, 2) if has_rr else None, rr=(3, 4) if has_rr and has_ur else None)
                if self.wrong == "swap":
                    exp["dr"], exp["rd"] = exp["rd"], exp["dr"]
                exp_build = {(1, tuple(edges), closed), (2, None, None)} | ({(3, tuple(edges), closed)} if has_rr else set()) | (
                    {(4, None, None)} if has_ur else set())
                exp_link = {1, 2} | ({3} if has_rr else set()) | ({4} if has_ur else set())
        finally:
            meas.PatchLinkage = old
        out.append(Check("one_corrfunc_per_scale", cond=(len(cfs) == S and all(isinstance(c, CorrFunc) for c in cfs))))
        for s, cf in enumerate(cfs):
            got = dict(dd=ident(cf.dd), dr=ident(cf.dr), rd=ident(cf.rd), rr=ident(cf.rr))
            out.append(Check("members_scale%d" % s, cond=(got == exp)))
            out.append(Check("scale_order%d" % s, cond=(int(cf.dd.counts.counts[0, 0, 0]) % 10 == s)))
        builds = {(b[1], b[2], b[3] if b[2] is not None else None) for b in log if b[0] == "build"}
        out.append(Check("trees_built_with_the_configured_binning", cond=(builds == exp_build)))
        links = [l for l in log if l[0] == "link"]
        out.append(Check("linkage_sees_all_catalogs", cond=(len(links) == 1 and set(links[0][1]) == exp_link)))
        return out


def Engine_apps(cosmo):
    from vf.symx import Engine

    return Engine.cur.uf_apps.setdefault("cosmo:" + cosmo.fname, [])


def implies(pre, concl):
    """all(pre) -> concl, in either mode (concl is a python bool decided on the path)"""
    if any(isinstance(p, SB) for p in pre):
        ps = [p.e if isinstance(p, SB) else z3.BoolVal(bool(p)) for p in pre]
        return SB(z3.Implies(z3.And(*ps), z3.BoolVal(bool(concl))))
    return (not all(bool(p) for p in pre)) or bool(concl)


class EndToEndSample(Harness):
    """Cross-validation of the lemma chain (NOT a solver-decided claim): the real crosscorrelate / autocorrelate on a small
    real catalog (real KD-trees, real cache files) against a brute-force O(n^2) count.  Positions straddle RA = 0 and
    approach a pole; low redshift (zmin < 0.05); weights present."""

    functions = (meas.crosscorrelate, meas.autocorrelate)
    modules = ()
    xval = False

    def __init__(self, case):
        self.case = case
        self.name = "crossvalidation.end_to_end.%s" % case
        self.bounds = "one concrete catalog per run (seeded by VERIF_SEED): 3 patches, 2 bins, 2 scales; sampled, not exhaustive"

    def make_inputs(self, eng):
        return {"seed": int(__import__("os").environ.get("VERIF_SEED", "0") or 0)}

    def concrete_inputs(self, m, inp):
        return dict(inp)

    def body(self, inp):
        import shutil
        import tempfile

        import pandas as pd
        from yaw import Catalog as RealCatalog, Configuration
        from yaw.coordinates import AngularCoordinates, AngularDistances

        rng = np.random.default_rng(1000 + inp["seed"])
        pole = self.case == "pole"

        def sample(n):
            if pole:
                ra = rng.uniform(0, 360, n)
                dec = rng.uniform(86.0, 90.0, n)
            else:
                ra = (rng.uniform(-3.0, 3.0, n)) % 360.0
                dec = rng.uniform(-2.0, 2.0, n)
            return pd.DataFrame(dict(ra=ra, dec=dec, z=rng.uniform(0.01, 0.09, n), w=rng.uniform(0.5, 2.0, n)))

        ref, unk, rnd = sample(60), sample(70), sample(80)
        tmp = tempfile.mkdtemp(prefix="c01e_", dir=runner.ROOT + "/scratch")
        try:
            kw = dict(ra_name="ra", dec_name="dec", weight_name="w", max_workers=1)
            cref = RealCatalog.from_dataframe(tmp + "/ref", ref, redshift_name="z", patch_num=3, **kw)
            cunk = RealCatalog.from_dataframe(tmp + "/unk", unk, patch_centers=cref, **kw)
            crnd = RealCatalog.from_dataframe(tmp + "/rnd", rnd, redshift_name="z", patch_centers=cref, **kw)
            cfg = Configuration.create(rmin=[0.05, 0.3], rmax=[0.5, 1.5], unit="deg", zmin=0.01, zmax=0.09, num_bins=2, closed="left")
            edges = cfg.binning.edges

            def load(cat):
                out = {}
                for pid, p in cat.items():
                    d = p.load_data()
                    out[pid] = (AngularCoordinates(np.column_stack([d["ra"], d["dec"]])), np.asarray(d["weights"]),
                                np.asarray(d["redshifts"]) if "redshifts" in d.dtype.names else None)
                return out

            def brute(c1, c2, auto):
                P = len(c1)
                res = np.zeros((2, 2, P, P))
                for s in range(2):
                    lo, hi = np.deg2rad(cfg.scales.scales.scale_min[s]), np.deg2rad(cfg.scales.scales.scale_max[s])
                    for b in range(2):
                        for i in range(P):
                            xi, wi, zi = c1[i]
                            mi = (zi >= edges[b]) & (zi < edges[b + 1])
                            for j in range(P):
                                if auto and j < i:
                                    continue
                                xj, wj, zj = c2[j]
                                mj = mi if (auto and i == j) else ((zj >= edges[b]) & (zj < edges[b + 1]) if auto else np.ones(len(wj), bool))
                                tot = 0.0
                                for a in np.nonzero(mi)[0]:
                                    d = xj.distance(AngularCoordinates(xi.data[a: a + 1])).data
                                    sel = mj & (d > lo) & (d <= hi)
                                    if auto and i == j:
                                        sel = sel & (np.arange(len(wj)) > a)
                                    tot += wi[a] * wj[sel].sum()
                                res[s, b, i, j] = tot
                return res

            out = []
            R, U, N = load(cref), load(cunk), load(crnd)
            cfs = meas.crosscorrelate(cfg, cref, cunk, ref_rand=crnd, max_workers=1)
            exp_dd, exp_rd = brute(R, U, False), brute(N, U, False)
            for s in range(2):
                out.append(Check("cross_dd_scale%d" % s, cfs[s].dd.counts.counts, exp_dd[s], tol=1e-9))
                out.append(Check("cross_rd_scale%d" % s, cfs[s].rd.counts.counts, exp_rd[s], tol=1e-9))
            sw = np.array([[R[i][1][(R[i][2] >= edges[b]) & (R[i][2] < edges[b + 1])].sum() for i in range(len(R))] for b in range(2)])
            out.append(Check("cross_sum_weights1", cfs[0].dd.sum_weights.sum_weights1, sw, tol=1e-12))
            out.append(Check("cross_sum_weights2", cfs[0].dd.sum_weights.sum_weights2, np.array([[U[i][1].sum() for i in range(len(U))]] * 2), tol=1e-12))
            afs = meas.autocorrelate(cfg, cref, crnd, count_rr=True, max_workers=1)
            exp_auto = brute(R, R, True)
            exp_rr = brute(N, N, True)
            for s in range(2):
                out.append(Check("auto_dd_scale%d" % s, afs[s].dd.counts.counts, exp_auto[s], tol=1e-9))
                out.append(Check("auto_rr_scale%d" % s, afs[s].rr.counts.counts, exp_rr[s], tol=1e-9))
            return out
        finally:
            shutil.rmtree(tmp, ignore_errors=True)


def harnesses(tier):
    hs = []
    if tier == "quick":
        hs += [TreeCount(1, 2, 1), TreeCount(2, 1, 2), TreeCount(1, 1, 1, res=1), TreeCount(1, 1, 2, res=1, staggered=True), EmptyTree()]
        hs += [PairIteration(3, True), PairIteration(3, False)]
        hs += [Accumulate(2, 1, 2, True), Accumulate(2, 2, 1, False)]
        hs += [MaxAngle(2, 1, "kpc"), MaxAngle(2, 1, "Mpc/h"), MaxAngle(1, 2, "arcmin"), Linkage(2)]
        hs += [ProcessPair(2, 2, "kpc", False), ProcessPair(2, 1, "Mpc/h", True), Wiring(), EndToEndSample("equator_wrap")]
    else:
        hs += [MaxAngle(2, 2, u) for u in UNITS] + [MaxAngle(3, 1, "kpc"), Linkage(2), Linkage(2, N=3)]
        # Linkage(3) (three catalogs) was part of this tier: its exploration took 134 s, 517 s and > 25 min in three runs on the
        # same tree because single z3 feasibility calls ignored their 20 s limit (one ran 755 s) -- dropped, see DESIGN.md
        hs += [ProcessPair(3, 2, u, bb) for u in ("kpc", "Mpc/h", "deg") for bb in (False, True)] + [Wiring(), EndToEndSample("equator_wrap"), EndToEndSample("pole")]
        hs += [TreeCount(2, 2, 1), TreeCount(2, 1, 2), TreeCount(1, 1, 3), TreeCount(1, 2, 1, res=1), TreeCount(1, 1, 1, res=2),
               *[TreeCount(1, 1, 2, res=r, staggered=l) for l in LAYOUTS for r in (1,)], TreeCount(1, 1, 1, res=7), EmptyTree()]
        hs += [PairIteration(4, True), PairIteration(4, False), PairIteration(5, True)]
        hs += [Accumulate(3, 2, 2, True), Accumulate(3, 2, 2, False)]
    hs += [TreeCount(1, 1, 1, wrong="closed"), TreeCount(1, 1, 1, wrong="reach"), PairIteration(3, True, wrong="ordered"),
           Accumulate(2, 1, 1, True, wrong="nohalf"), Linkage(2, wrong="reach"), MaxAngle(1, 1, "Mpc", wrong="edge"), Wiring(wrong="swap")]
    return hs


if __name__ == "__main__":
    sys.exit(
        runner.main(
            "C01",
            harnesses,
            level="other",
            explanation="Chain of bounded symbolic lemmas on the real code: (L1) AngularTree.count post-processing "
            "(parse_ang_limits, get_ang_bins, dispatch_counts, logarithmic_mid, get_counts_for_limits) over a specification "
            "KD-tree, with pair chords, weights, scale limits and the power-law exponent as solver variables; (L2) patch linkage "
            "is conservative; (L3) iter_patch_id_pairs visits every linked pair once for every link relation; (L4) count_pairs "
            "stores every payload in its cell.  log10/10**x/x**a/sin are uninterpreted functions with eagerly instantiated "
            "monotonicity / inverse axioms.",
            assumptions=[
                "float64 modelled as exact reals: 10**log10(x) = x and chord rounding at a limit are outside the claim",
                "scipy KDTree replaced by SpecTree (documented count_neighbors contract); its traversal is not verified",
                "angle<->chord conversion strictly increasing on [0,pi] (established separately in C14)",
                "sizes bounded as listed per harness",
            ],
            trusted_base=["z3", "vf.stubs.kdtree.SpecTree", "vf.uf axioms (monotone log10/exp10/sin, inverse pairs, pow positive)"],
        )
    )
