"""C17 -- container algebra and indexing."""
from __future__ import annotations

import sys

import numpy as np
import z3

from yaw.binning import Binning
from yaw.correlation.corrdata import CorrData, SampledData
from yaw.correlation.corrfunc import CorrFunc
from yaw.correlation.paircounts import NormalisedCounts, PatchedCounts, PatchedSumWeights
from yaw.utils.abc import BinwiseData, Indexer, PatchwiseData

from checks.common import cat, wrap, CORR_MODULES, build_counts, conc_binning, mat, sym_counts, total_counts, vec
from vf import runner
from vf.runner import Check, Harness
from vf.symx import SB, SV, Engine, sarr, sym, symarr


def raises(name, fn, excs=(ValueError, TypeError, IndexError)):
    try:
        fn()
    except excs:
        return Check(name, cond=True)
    return Check(name, cond=False)


def arr_eq_formula(a, b):
    """structural equality of two arrays as a formula / bool"""
    a, b = np.asarray(a, dtype=object), np.asarray(b, dtype=object)
    if a.shape != b.shape:
        return False
    conds = []
    for i in np.ndindex(*a.shape):
        c = a[i] == b[i]
        conds.append(c)
    if any(isinstance(c, SB) for c in conds):
        return SB(z3.And(*[c.e if isinstance(c, SB) else z3.BoolVal(bool(c)) for c in conds]))
    return all(bool(c) for c in conds)


def same(pybool, formula):
    """pybool (decided by forking inside the code) agrees with the formula"""
    if isinstance(formula, SB):
        return SB(formula.e == z3.BoolVal(bool(pybool)))
    return bool(pybool) == bool(formula)


class Add(Harness):
    functions = (PatchedCounts.__add__, PatchedCounts.__radd__, NormalisedCounts.__add__, NormalisedCounts.__radd__,
                 CorrFunc.__add__, BinwiseData.is_compatible, PatchwiseData.is_compatible)
    modules = CORR_MODULES

    def __init__(self, B, P, auto):
        self.B, self.P, self.auto = B, P, auto
        self.name = "add.B%dP%d.%s" % (B, P, "auto" if auto else "cross")
        self.bounds = "bins=%d patches=%d symbolic contents" % (B, P)

    def make_inputs(self, eng):
        d = {}
        for t in ("a", "b", "ar", "br"):
            d.update(sym_counts(t, self.B, self.P, self.auto))
        return d

    def body(self, inp):
        B, P, auto = self.B, self.P, self.auto
        binning = conc_binning(B)
        a = build_counts(inp, "a", binning, auto)
        # b shares a's weights (required for addition)
        inp_b = dict(inp)
        inp_b["b_w1"] = inp["a_w1"]
        if not auto:
            inp_b["b_w2"] = inp["a_w2"]
        b = build_counts(inp_b, "b", binning, auto)
        out = []
        s = a.counts + b.counts
        out.append(Check("patchedcounts_add", s.counts, inp["a_c"] + inp["b_c"]))
        out.append(Check("patchedcounts_add_meta", cond=(s.auto == auto and s.binning == binning and s.num_patches == P)))
        s2 = sum([a.counts, b.counts])
        out.append(Check("patchedcounts_sum_builtin", s2.counts, inp["a_c"] + inp["b_c"]))
        n = a + b
        out.append(Check("normalised_add_counts", n.counts.counts, inp["a_c"] + inp["b_c"]))
        out.append(Check("normalised_add_weights", n.sum_weights.sum_weights1, inp["a_w1"]))
        n2 = sum([a, b])
        out.append(Check("normalised_sum_builtin", n2.counts.counts, inp["a_c"] + inp["b_c"]))
        # CorrFunc
        inp_r = dict(inp)
        inp_r["br_w1"] = inp["ar_w1"]
        if not auto:
            inp_r["br_w2"] = inp["ar_w2"]
        ar = build_counts(inp_r, "ar", binning, auto)
        br = build_counts(inp_r, "br", binning, auto)
        c = CorrFunc(a, ar) + CorrFunc(b, br)
        out.append(Check("corrfunc_add_dd", c.dd.counts.counts, inp["a_c"] + inp["b_c"]))
        out.append(Check("corrfunc_add_dr", c.dr.counts.counts, inp["ar_c"] + inp["br_c"]))
        out.append(Check("corrfunc_add_members", cond=(c.rd is None and c.rr is None)))
        # inputs not mutated
        out.append(Check("operands_untouched", a.counts.counts, inp["a_c"]))
        # incompatible operands are rejected
        other_binning = Binning(binning.edges + 0.125, closed=binning.closed)
        b_bin = build_counts(inp_b, "b", other_binning, auto)
        out.append(raises("add_rejects_other_binning", lambda: a.counts + b_bin.counts))
        out.append(raises("add_rejects_other_binning_normalised", lambda: a + b_bin))
        closed_binning = Binning(binning.edges, closed="left")
        b_cl = build_counts(inp_b, "b", closed_binning, auto)
        out.append(raises("add_rejects_other_closed_side", lambda: a.counts + b_cl.counts))
        small = {k: (v[:, : P - 1, : P - 1] if v.ndim == 3 else v[:, : P - 1]) for k, v in inp_b.items() if k.startswith("b_")}
        b_small = build_counts(small, "b", binning, auto)
        out.append(raises("add_rejects_other_patches", lambda: a.counts + b_small.counts))
        out.append(raises("add_rejects_other_patches_corrfunc", lambda: CorrFunc(a, ar) + CorrFunc(b_small, b_small)))
        out.append(raises("add_rejects_other_type", lambda: a.counts + 1.5))
        return out


class AddWeightsMismatch(Harness):
    """NormalisedCounts addition demands identical sum_weights"""

    functions = (NormalisedCounts.__add__, PatchedSumWeights.__eq__)
    modules = CORR_MODULES

    def __init__(self, B, P):
        self.B, self.P = B, P
        self.name = "add.weights_identical.B%dP%d" % (B, P)
        self.bounds = "bins=%d patches=%d symbolic" % (B, P)

    def make_inputs(self, eng):
        d = {}
        for t in ("a", "b"):
            d.update(sym_counts(t, self.B, self.P, False))
        return d

    def body(self, inp):
        binning = conc_binning(self.B)
        a = build_counts(inp, "a", binning, False)
        b = build_counts(inp, "b", binning, False)
        equal_w = arr_eq_formula(np.concatenate([inp["a_w1"].ravel(), inp["a_w2"].ravel()]),
                                 np.concatenate([inp["b_w1"].ravel(), inp["b_w2"].ravel()]))
        try:
            r = a + b
            ok = True
        except ValueError:
            ok = False
        out = [Check("add_iff_weights_identical", cond=same(ok, equal_w))]
        if ok:
            out.append(Check("counts_added", r.counts.counts, inp["a_c"] + inp["b_c"]))
        return out


class Mul(Harness):
    functions = (PatchedCounts.__mul__, NormalisedCounts.__mul__, CorrFunc.__mul__, CorrFunc.sample)
    modules = CORR_MODULES

    def __init__(self, B, P, auto, est):
        self.B, self.P, self.auto, self.est = B, P, auto, est
        self.name = "mul.B%dP%d.%s.%s" % (B, P, "auto" if auto else "cross", "+".join(est))
        self.bounds = "bins=%d patches=%d symbolic contents and scalar" % (B, P)
        self.assumptions = ("scalar non-zero for the sampled-estimate invariance",)

    def make_inputs(self, eng):
        d = {"s": sym("s")}
        eng.assume(d["s"] != 0)
        for t in ("dd",) + tuple(self.est):
            d.update(sym_counts(t, self.B, self.P, self.auto))
        return d

    def body(self, inp):
        binning = conc_binning(self.B)
        s = inp["s"]
        parts = {t: build_counts(inp, t, binning, self.auto) for t in ("dd",) + tuple(self.est)}
        a = parts["dd"]
        out = []
        pc = a.counts * s
        out.append(Check("patchedcounts_mul", pc.counts, inp["dd_c"] * s))
        nc = a * s
        out.append(Check("normalised_mul_counts", nc.counts.counts, inp["dd_c"] * s))
        out.append(Check("normalised_mul_weights", nc.sum_weights.sum_weights1, inp["dd_w1"]))
        out.append(Check("normalised_mul_sample", nc.sample_patch_sum().data, a.sample_patch_sum().data * s))
        cf = CorrFunc(**parts)
        cs = cf * s
        for t in parts:
            out.append(Check("corrfunc_mul_" + t, getattr(cs, t).counts.counts, inp[t + "_c"] * s))
        x, y = cs.sample(), cf.sample()
        out.append(Check("sample_invariant_data", x.data, y.data))
        out.append(Check("sample_invariant_samples", x.samples, y.samples))
        out.append(Check("operand_untouched", a.counts.counts, inp["dd_c"]))
        out.append(raises("mul_rejects_bool", lambda: a.counts * True))
        out.append(raises("mul_rejects_container", lambda: a.counts * a.counts))
        return out


class Equality(Harness):
    functions = (PatchedCounts.__eq__, PatchedSumWeights.__eq__, NormalisedCounts.__eq__, CorrFunc.__eq__,
                 SampledData.__eq__, Binning.__eq__)
    modules = CORR_MODULES

    def __init__(self, B, P):
        self.B, self.P = B, P
        self.name = "eq.B%dP%d" % (B, P)
        self.bounds = "bins=%d patches=%d symbolic contents of two containers" % (B, P)

    def make_inputs(self, eng):
        d = {}
        for t in ("a", "b"):
            d.update(sym_counts(t, self.B, self.P, False))
        d["x"] = symarr("x", (self.P, self.B))
        d["y"] = symarr("y", (self.P, self.B))
        return d

    def body(self, inp):
        binning = conc_binning(self.B)
        a = build_counts(inp, "a", binning, False)
        a2 = build_counts(inp, "a", conc_binning(self.B), False)
        b = build_counts(inp, "b", binning, False)
        out = [
            Check("reflexive_counts", cond=bool(a.counts == a.counts)),
            Check("reflexive_weights", cond=bool(a.sum_weights == a.sum_weights)),
            Check("reflexive_normalised", cond=bool(a == a)),
            Check("structural_copy", cond=bool(a == a2)),
            Check("reflexive_corrfunc", cond=bool(CorrFunc(a, a) == CorrFunc(a2, a2))),
        ]
        eqc = arr_eq_formula(inp["a_c"], inp["b_c"])
        eqw = arr_eq_formula(np.concatenate([inp["a_w1"].ravel(), inp["a_w2"].ravel()]),
                             np.concatenate([inp["b_w1"].ravel(), inp["b_w2"].ravel()]))
        out.append(Check("counts_eq_iff_equal_arrays", cond=same(a.counts == b.counts, eqc)))
        out.append(Check("weights_eq_iff_equal_arrays", cond=same(a.sum_weights == b.sum_weights, eqw)))
        both = (eqc & eqw) if isinstance(eqc, SB) or isinstance(eqw, SB) else (eqc and eqw)
        if isinstance(both, SB) or isinstance(eqc, SB) or isinstance(eqw, SB):
            e1 = eqc.e if isinstance(eqc, SB) else z3.BoolVal(bool(eqc))
            e2 = eqw.e if isinstance(eqw, SB) else z3.BoolVal(bool(eqw))
            both = SB(z3.And(e1, e2))
        out.append(Check("normalised_eq_iff_both", cond=same(a == b, both)))
        out.append(Check("corrfunc_member_sets_differ", cond=not (CorrFunc(a, a) == CorrFunc(a, None, a))))
        # structural: every combination of optional members, in both operand orders
        combos = [(a, None, None), (None, a, None), (None, None, a), (a, a, None), (a, None, a), (None, a, a), (a, a, a)]
        for k1, c1 in enumerate(combos):
            for k2, c2 in enumerate(combos):
                r = CorrFunc(a, *c1) == CorrFunc(a2, *c2)
                out.append(Check("corrfunc_members_%d_%d" % (k1, k2), cond=(bool(r) == (k1 == k2))))
        out.append(Check("eq_symmetric", cond=((a == b) == (b == a) and (a.counts == b.counts) == (b.counts == a.counts))))
        out.append(Check("auto_flag_matters", cond=not (
            PatchedCounts(binning, inp["a_c"].copy(), auto=True) == PatchedCounts(binning, inp["a_c"].copy(), auto=False))))
        out.append(Check("binning_matters", cond=not (
            PatchedCounts(binning, inp["a_c"].copy(), auto=False)
            == PatchedCounts(Binning(binning.edges, closed="left"), inp["a_c"].copy(), auto=False))))
        sx = SampledData(binning, inp["x"][0].copy(), inp["x"].copy())
        sy = SampledData(binning, inp["y"][0].copy(), inp["y"].copy())
        out.append(Check("sampled_reflexive", cond=bool(sx == sx)))
        out.append(Check("sampled_eq_iff_equal_arrays", cond=same(sx == sy, arr_eq_formula(inp["x"], inp["y"]))))
        out.append(Check("other_type_not_equal", cond=not (a.counts == 3)))
        return out


class SampledAlgebra(Harness):
    functions = (SampledData.__add__, SampledData.__sub__, SampledData.is_compatible)
    modules = CORR_MODULES

    def __init__(self, cls, B, N):
        self.cls, self.B, self.N = cls, B, N
        self.name = "sampled.addsub.%s.B%dN%d" % (cls.__name__, B, N)
        self.bounds = "bins=%d samples=%d symbolic" % (B, N)

    def make_inputs(self, eng):
        return {k: symarr(k, (self.N, self.B)) for k in ("x", "y")} | {k + "d": symarr(k + "d", (self.B,)) for k in ("x", "y")}

    def body(self, inp):
        binning = conc_binning(self.B)
        x = self.cls(binning, inp["xd"].copy(), inp["x"].copy())
        y = self.cls(conc_binning(self.B), inp["yd"].copy(), inp["y"].copy())
        s, d = x + y, x - y
        out = [
            Check("add_data", s.data, inp["xd"] + inp["yd"]),
            Check("add_samples", s.samples, inp["x"] + inp["y"]),
            Check("sub_data", d.data, inp["xd"] - inp["yd"]),
            Check("sub_samples", d.samples, inp["x"] - inp["y"]),
            Check("result_type_and_binning", cond=(type(s) is self.cls and s.binning == binning and d.binning == binning)),
            Check("operands_untouched", x.samples, inp["x"]),
        ]
        other = self.cls(Binning(binning.edges + 0.5), inp["yd"].copy(), inp["y"].copy())
        out.append(raises("add_rejects_other_binning", lambda: x + other))
        fewer = self.cls(binning, inp["yd"].copy(), inp["y"][:-1].copy()) if self.N > 1 else None
        if fewer is not None:
            out.append(raises("sub_rejects_other_num_samples", lambda: x - fewer))
        out.append(raises("add_rejects_other_type", lambda: x + 1.0))
        return out


def _selections(n):
    """all int indices and all non-empty contiguous slices of range(n)"""
    sel = [i for i in range(n)] + [-1]
    sel += [slice(a, b) for a in range(n) for b in range(a + 1, n + 1)]
    sel += [slice(None), slice(None, None, 1), slice(1, None) if n > 1 else slice(None)]
    return sel


def _idx(sel, n):
    return list(range(n))[sel] if isinstance(sel, slice) else [range(n)[sel]]


class Indexing(Harness):
    functions = (Indexer.__getitem__, Indexer.__next__, Indexer.__iter__, PatchedCounts._make_bin_slice,
                 PatchedCounts._make_patch_slice, PatchedSumWeights._make_bin_slice, PatchedSumWeights._make_patch_slice,
                 NormalisedCounts._make_bin_slice, NormalisedCounts._make_patch_slice, CorrFunc._make_bin_slice,
                 CorrFunc._make_patch_slice, SampledData._make_bin_slice, Binning.__getitem__, Binning.__iter__)
    modules = CORR_MODULES

    def __init__(self, axis, B, P, auto):
        self.axis, self.B, self.P, self.auto = axis, B, P, auto
        self.name = "index.%s.B%dP%d.%s" % (axis, B, P, "auto" if auto else "cross")
        self.bounds = "bins=%d patches=%d; every int index and contiguous slice and the closed side chosen by the engine; symbolic contents" % (B, P)

    def make_inputs(self, eng):
        d = {}
        for t in ("dd", "dr"):
            d.update(sym_counts(t, self.B, self.P, self.auto))
        n = self.B if self.axis == "bins" else self.P
        sels = _selections(n)
        d["sel"] = eng.choose(len(sels), "selection")
        d["closed"] = eng.choose(2, "closed")
        return d

    def concrete_inputs(self, m, inp):
        from vf.symx import concretise

        out = concretise(m, {k: v for k, v in inp.items() if k not in ("sel", "closed")})
        out["sel"], out["closed"] = inp["sel"], inp["closed"]
        return out

    def body(self, inp):
        B, P, auto = self.B, self.P, self.auto
        binning = conc_binning(B, closed=("right", "left")[int(inp.get("closed", 0))])
        n = B if self.axis == "bins" else P
        sel = _selections(n)[int(inp["sel"])]
        idx = _idx(sel, n)
        dd = build_counts(inp, "dd", binning, auto)
        dr = build_counts(inp, "dr", binning, auto)
        cf = CorrFunc(dd, dr)
        C, W1 = inp["dd_c"], inp["dd_w1"]
        W2 = W1 if auto else inp["dd_w2"]
        out = []
        if self.axis == "bins":
            sub_c, sub_w, sub_n, sub_cf = dd.counts.bins[sel], dd.sum_weights.bins[sel], dd.bins[sel], cf.bins[sel]
            expC, expW1, expW2 = C[idx], W1[idx], W2[idx]
            exp_edges = binning.edges[idx[0]: idx[-1] + 2]
            for nm, sub in (("counts", sub_c), ("weights", sub_w), ("normalised", sub_n), ("corrfunc", sub_cf)):
                out.append(Check("bins_binning_" + nm, sub.binning.edges, exp_edges))
                out.append(Check("bins_closed_" + nm, cond=(sub.binning.closed == binning.closed and sub.num_patches == P)))
            # commutes with summation / sampling
            full, part = dd.sample_patch_sum(), sub_n.sample_patch_sum()
            out.append(Check("bins_commutes_sum_data", part.data, full.data[idx]))
            out.append(Check("bins_commutes_sum_samples", part.samples, full.samples[:, idx]))
            fs, ps = cf.sample(), sub_cf.sample()
            out.append(Check("bins_commutes_sample_data", ps.data, fs.data[idx]))
            out.append(Check("bins_commutes_sample_samples", ps.samples, fs.samples[:, idx]))
            sb = fs.bins[sel]
            out.append(Check("sampleddata_bins_data", sb.data, fs.data[idx]))
            out.append(Check("sampleddata_bins_samples", sb.samples, fs.samples[:, idx]))
            out.append(Check("sampleddata_bins_binning", sb.binning.edges, exp_edges))
            out.append(Check("sampleddata_bins_closed", cond=(sb.binning.closed == binning.closed)))
            bsub = binning[sel]
            out.append(Check("binning_getitem", bsub.edges, exp_edges))
            out.append(Check("binning_getitem_closed", cond=(bsub.closed == binning.closed)))
            out.append(Check("binning_iter_closed", cond=all(b.closed == binning.closed for b in binning)))
        else:
            sub_c, sub_w, sub_n, sub_cf = dd.counts.patches[sel], dd.sum_weights.patches[sel], dd.patches[sel], cf.patches[sel]
            expC, expW1, expW2 = C[:, idx][:, :, idx], W1[:, idx], W2[:, idx]
            for nm, sub in (("counts", sub_c), ("weights", sub_w), ("normalised", sub_n), ("corrfunc", sub_cf)):
                out.append(Check("patches_meta_" + nm, cond=(sub.binning == binning and sub.num_patches == len(idx))))
            # commutes with summation: the sum of the selected sub-container equals the explicit sum over selected patches
            part = sub_c.sample_patch_sum()
            out.append(Check("patches_commutes_sum", part.data,
                             vec(lambda b: sum((C[b, i, j] for i in idx for j in idx), 0), B)))
        out.append(Check(self.axis + "_counts", sub_c.counts, expC))
        out.append(Check(self.axis + "_weights1", sub_w.sum_weights1, expW1))
        out.append(Check(self.axis + "_weights2", sub_w.sum_weights2, expW2))
        out.append(Check(self.axis + "_normalised_counts", sub_n.counts.counts, expC))
        out.append(Check(self.axis + "_normalised_weights", sub_n.sum_weights.sum_weights1, expW1))
        out.append(Check(self.axis + "_corrfunc_dd", sub_cf.dd.counts.counts, expC))
        out.append(Check(self.axis + "_corrfunc_dr_present", cond=(sub_cf.dr is not None and sub_cf.rr is None)))
        out.append(Check(self.axis + "_auto_kept", cond=(sub_c.auto == auto and sub_w.auto == auto)))
        return out


class Iteration(Harness):
    functions = (Indexer.__next__, Indexer.__iter__, Binning.__iter__)
    modules = CORR_MODULES

    def __init__(self, B, P, auto):
        self.B, self.P, self.auto = B, P, auto
        self.name = "iterate.B%dP%d.%s" % (B, P, "auto" if auto else "cross")
        self.bounds = "bins=%d patches=%d symbolic contents" % (B, P)

    def make_inputs(self, eng):
        d = {}
        for t in ("dd", "dr"):
            d.update(sym_counts(t, self.B, self.P, self.auto))
        return d

    def body(self, inp):
        B, P, auto = self.B, self.P, self.auto
        binning = conc_binning(B)
        dd = build_counts(inp, "dd", binning, auto)
        dr = build_counts(inp, "dr", binning, auto)
        cf = CorrFunc(dd, dr)
        C, W1 = inp["dd_c"], inp["dd_w1"]
        out = []
        for nm, obj, getc in (("counts", dd.counts, lambda o: o.counts), ("normalised", dd, lambda o: o.counts.counts),
                              ("corrfunc", cf, lambda o: o.dd.counts.counts)):
            items = list(obj.bins)
            out.append(Check("iter_bins_len_" + nm, cond=(len(items) == B)))
            for b, it in enumerate(items[:B]):
                out.append(Check("iter_bins_%s_%d" % (nm, b), getc(it), C[b: b + 1]))
            items = list(obj.patches)
            out.append(Check("iter_patches_len_" + nm, cond=(len(items) == P)))
            for p, it in enumerate(items[:P]):
                out.append(Check("iter_patches_%s_%d" % (nm, p), getc(it), C[:, p: p + 1, p: p + 1]))
        items = list(dd.sum_weights.patches)
        out.append(Check("iter_patches_len_weights", cond=(len(items) == P)))
        for p, it in enumerate(items[:P]):
            out.append(Check("iter_patches_weights_%d" % p, it.sum_weights1, W1[:, p: p + 1]))
        sd = cf.sample()
        items = list(sd.bins)
        out.append(Check("iter_sampled_len", cond=(len(items) == B)))
        for b, it in enumerate(items[:B]):
            out.append(Check("iter_sampled_%d" % b, it.data, sd.data[b: b + 1]))
            out.append(Check("iter_sampled_samples_%d" % b, it.samples, sd.samples[:, b: b + 1]))
        items = list(binning)
        out.append(Check("iter_binning_len", cond=(len(items) == B)))
        for b, it in enumerate(items[:B]):
            out.append(Check("iter_binning_%d" % b, it.edges, binning.edges[b: b + 2]))
        # iterating twice restarts
        out.append(Check("iter_restarts", cond=(len(list(dd.counts.bins)) == B)))
        return out


class Shapes(Harness):
    functions = (PatchedCounts.__init__, PatchedSumWeights.__init__, NormalisedCounts.__init__, SampledData.__init__,
                 CorrFunc.__init__)
    modules = CORR_MODULES

    def __init__(self, B, P):
        self.B, self.P = B, P
        self.name = "shapes.B%dP%d" % (B, P)
        self.bounds = "bins=%d patches=%d symbolic contents, every listed malformed shape" % (B, P)

    def make_inputs(self, eng):
        return sym_counts("a", self.B, self.P, False)

    def body(self, inp):
        B, P = self.B, self.P
        binning = conc_binning(B)
        C, w1, w2 = inp["a_c"], inp["a_w1"], inp["a_w2"]
        good = build_counts(inp, "a", binning, False)
        mk_w = lambda a, b: (lambda: PatchedSumWeights(binning, a, b, auto=False))
        mk_c = lambda a: (lambda: PatchedCounts(binning, a, auto=False))
        out = [
            raises("weights_reject_1dim_both", mk_w(w1[0].copy(), w2[0].copy())),
            raises("weights_reject_1dim_first", mk_w(w1[0].copy(), w2.copy())),
            raises("weights_reject_3dim", mk_w(C.copy(), C.copy())),
            raises("weights_reject_shape_mismatch", mk_w(w1.copy(), w2[:, :-1].copy())),
            raises("weights_reject_bins_mismatch", mk_w(cat(w1, w1), cat(w2, w2))),
            raises("counts_reject_2dim", mk_c(C[0].copy())),
            raises("counts_reject_non_square", mk_c(C[:, :, :-1].copy())),
            raises("counts_reject_bins_mismatch", mk_c(cat(C, C))),
            raises("normalised_reject_patch_mismatch", lambda: NormalisedCounts(
                PatchedCounts(binning, C[:, :-1, :-1].copy(), auto=False), good.sum_weights)),
            raises("normalised_reject_bin_mismatch", lambda: NormalisedCounts(
                PatchedCounts(conc_binning(B + 1), cat(C, C[:1]), auto=False), good.sum_weights)),
            raises("sampled_reject_data_shape", lambda: SampledData(binning, w1[0, :1] if B > 1 else cat(w1[:, 0], w1[:, 0]), w1.T.copy())),
            raises("sampled_reject_samples_1dim", lambda: SampledData(binning, w1[:, 0].copy(), w1[:, 0].copy())),
            raises("sampled_reject_samples_bins", lambda: SampledData(binning, w1[:, 0].copy(), cat(w1, w1).T.copy())),
            raises("corrfunc_reject_incompatible", lambda: CorrFunc(good, NormalisedCounts(
                PatchedCounts(binning, C[:, :-1, :-1].copy(), auto=False),
                PatchedSumWeights(binning, w1[:, :-1].copy(), w2[:, :-1].copy(), auto=False)))),
            raises("corrfunc_requires_randoms", lambda: CorrFunc(good), excs=(Exception,)),
        ]
        ok = PatchedSumWeights(binning, w1.copy(), w2.copy(), auto=False)
        out.append(Check("good_shapes_accepted", ok.sum_weights1, w1))
        return out


def harnesses(tier):
    hs = []
    B, P = (2, 2) if tier == "quick" else (2, 3)
    for auto in (False, True):
        hs.append(Add(B, P, auto))
    hs.append(AddWeightsMismatch(1, 2))
    hs.append(Mul(1, 2, False, ("dr",)))
    hs.append(Mul(1, 2, True, ("dr", "rr")))
    if tier == "thorough":
        hs.append(Mul(1, 3, False, ("dr",)))
        hs.append(Mul(1, 3, True, ("dr", "rr")))
        hs.append(Mul(1, 2, False, ("dr", "rd", "rr")))
        hs.append(Mul(2, 2, False, ("dr",)))
        hs.append(AddWeightsMismatch(2, 2))
    hs.append(Equality(1, 2))
    for cls in (SampledData, CorrData):
        hs.append(SampledAlgebra(cls, 2, 2))
    iB, iP = (2, 3) if tier == "quick" else (3, 3)
    for axis in ("bins", "patches"):
        for auto in ((False,) if tier == "quick" else (False, True)):
            hs.append(Indexing(axis, iB, iP, auto))
    hs.append(Iteration(2, 2, False))
    if tier == "thorough":
        hs.append(Iteration(3, 3, True))
        hs.append(Equality(2, 2))
    hs.append(Shapes(2, 3))
    return hs


if __name__ == "__main__":
    sys.exit(
        runner.main(
            "C17",
            harnesses,
            level="other",
            explanation="Bounded symbolic execution of the real container operators (+, sum(), *, ==), the Indexer "
            "(index / slice / iteration) of every container, and the constructors' shape checks, on object arrays of z3 reals. "
            "The selection (int index or contiguous slice) is an engine choice so that every selection within the shape is "
            "enumerated by the solver; contents and scalars are unconstrained reals.",
            assumptions=[
                "float64 modelled as exact reals",
                "shapes bounded as listed; non-contiguous fancy selections are outside the claim",
                "scalar != 0 for the invariance of sampled estimates",
            ],
            trusted_base=["z3", "numpy object-array slicing"],
        )
    )
