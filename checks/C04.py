"""C04 -- correlation estimators and the n(z) formula are applied as documented."""
from __future__ import annotations

import itertools
import sys

import numpy as np
import z3

from yaw.binning import Binning
from yaw.correlation.corrdata import CorrData
from yaw.correlation.corrfunc import CorrFunc, davis_peebles, landy_szalay
from yaw.correlation.paircounts import NormalisedCounts, PatchedCounts, PatchedSumWeights
from yaw.redshifts import HistData, RedshiftData

from checks.common import member_auto, CORR_MODULES, build_counts, conc_binning, mat, normalised, sym_counts, vec
from vf import runner
from vf.runner import Check, Harness
from vf.symx import SB, SV, sarr, symarr


def _or(*cs):
    if any(isinstance(c, SB) for c in cs):
        return SB(z3.Or(*[c.e if isinstance(c, SB) else z3.BoolVal(bool(c)) for c in cs]))
    return any(bool(c) for c in cs)


def _eq(a, b, tol=1e-9):
    if isinstance(a, SV) or isinstance(b, SV):
        return a == b
    return abs(a - b) <= tol * max(1.0, abs(a), abs(b))


class Estimator(Harness):
    functions = (CorrFunc.sample, CorrFunc.__init__, landy_szalay, davis_peebles, NormalisedCounts.sample_patch_sum)
    modules = CORR_MODULES

    def __init__(self, subset, auto, B, P, wrong=None):
        self.subset, self.auto, self.B, self.P, self.wrong = tuple(subset), auto, B, P, wrong
        self.name = "estimator.dd+%s.%s.B%dP%d" % ("+".join(subset), "auto" if auto else "cross", B, P) + (
            ".twin-" + wrong if wrong else "")
        self.bounds = "bins=%d patches=%d, pair counts %s present; all entries symbolic" % (B, P, ("dd",) + self.subset)
        self.assumptions = ("weight totals and the random-pair totals used as denominators are non-zero",)
        self.must_fail = wrong is not None

    def make_inputs(self, eng):
        d = {}
        for t in ("dd",) + self.subset:
            d.update(sym_counts(t, self.B, self.P, member_auto(t, self.auto)))
        return d

    def body(self, inp):
        binning = conc_binning(self.B)
        kw = {t: build_counts(inp, t, binning, member_auto(t, self.auto)) for t in ("dd",) + self.subset}
        cf = CorrFunc(**kw)
        S = set(self.subset)
        covered = ("rr" in S and "dr" in S) or ("rr" not in S)
        try:
            cd = cf.sample()
        except TypeError:
            if covered:
                raise
            # combination not covered by the documented formula (RR without DR): an error is acceptable
            return [Check("uncovered_combination_raises", cond=True)]
        out = []
        for k in [None] + list(range(self.P)):
            T = {t: vec(lambda b: normalised(inp, t, b, member_auto(t, self.auto), k), self.B) for t in ("dd",) + self.subset}
            got = cd.data if k is None else cd.samples[k]
            tag = "data" if k is None else "sample%d" % k
            if "rr" in S:
                if "dr" in S:
                    rd = T["rd"] if "rd" in S else T["dr"]
                    if self.wrong == "sign":
                        exp = (T["dd"] - T["dr"] + rd + T["rr"]) / T["rr"]
                    else:
                        exp = (T["dd"] - T["dr"] - rd + T["rr"]) / T["rr"]
                    out.append(Check(tag, got, exp))
                else:  # uncovered: accept the symmetric replacement of DR by RD
                    if "rd" in S:
                        exp = (T["dd"] - T["rd"] - T["rd"] + T["rr"]) / T["rr"]
                        out.append(Check(tag, got, exp))
            else:
                exps = []
                if "dr" in S:
                    exps.append(T["dd"] / T["dr"] - 1)
                if "rd" in S:
                    exps.append(T["dd"] / T["rd"] - 1)
                if len(exps) == 1:
                    out.append(Check(tag, got, exps[0]))
                else:
                    out.append(Check(tag, cond=[_or(_eq(got[b], exps[0][b]), _eq(got[b], exps[1][b])) for b in range(self.B)]))
        return out


class AutoNorm(Harness):
    """normalisation of an autocorrelation term is half the squared total weight"""

    functions = (PatchedSumWeights.get_array, PatchedSumWeights.sample_patch_sum)
    modules = CORR_MODULES

    def __init__(self, B, P):
        self.B, self.P = B, P
        self.name = "autonorm.B%dP%d" % (B, P)
        self.bounds = "bins=%d patches=%d symbolic weight sums" % (B, P)

    def make_inputs(self, eng):
        return {"w": symarr("w", (self.B, self.P))}

    def body(self, inp):
        w = inp["w"]
        sw = PatchedSumWeights(conc_binning(self.B), w.copy(), w.copy(), auto=True)
        got = sw.sample_patch_sum()
        tot = lambda b, k: sum((w[b, i] for i in range(self.P) if i != k), 0)
        exp = vec(lambda b: tot(b, None) * tot(b, None) * 0.5, self.B)
        exps = mat(lambda k, b: tot(b, k) * tot(b, k) * 0.5, self.P, self.B)
        cross = PatchedSumWeights(conc_binning(self.B), w.copy(), w.copy(), auto=False).sample_patch_sum()
        expc = vec(lambda b: tot(b, None) * tot(b, None), self.B)
        return [Check("auto_half_squared_total", got.data, exp), Check("auto_samples", got.samples, exps),
                Check("cross_product_of_totals", cross.data, expc)]


class ReadOnlyAccessors(Harness):
    """looking at a container (get_array, sample_patch_sum, totals) must not change it: the value and the samples computed
    afterwards are the ones computed before, and the stored counts are the inputs"""

    functions = (NormalisedCounts.get_array, PatchedCounts.get_array, PatchedSumWeights.get_array, NormalisedCounts.sample_patch_sum,
                 CorrFunc.sample)
    modules = CORR_MODULES

    def __init__(self, B, P, auto):
        self.B, self.P, self.auto = B, P, auto
        self.name = "estimator.after_get_array.B%dP%d.%s" % (B, P, "auto" if auto else "cross")
        self.bounds = "bins=%d patches=%d, dd + dr symbolic; accessors called in between two samplings" % (B, P)

    def make_inputs(self, eng):
        d = {}
        for t in ("dd", "dr"):
            d.update(sym_counts(t, self.B, self.P, member_auto(t, self.auto)))
        return d

    def body(self, inp):
        binning = conc_binning(self.B)
        mk = lambda: CorrFunc(build_counts(inp, "dd", binning, member_auto("dd", self.auto)),
                              build_counts(inp, "dr", binning, member_auto("dr", self.auto)))
        ref = mk().sample()
        cf = mk()
        a1 = cf.dd.get_array()
        cf.dr.get_array()
        cf.dd.counts.get_array()
        cf.dd.sum_weights.get_array()
        cf.dd.sample_patch_sum()
        a2 = cf.dd.get_array()
        got = cf.sample()
        return [Check("value_unchanged", got.data, ref.data), Check("samples_unchanged", got.samples, ref.samples),
                Check("get_array_repeatable", a2, a1), Check("stored_counts_are_the_inputs", cf.dd.counts.counts, inp["dd_c"]),
                Check("stored_dr_counts_are_the_inputs", cf.dr.counts.counts, inp["dr_c"])]


class ZeroWeightBin(Harness):
    """zero total weight in one bin of one term: the estimate of that bin must not be a finite number (0/0, x/0 are outside
    the real-number model): concrete sentinels at engine-chosen positions"""

    functions = (NormalisedCounts.sample_patch_sum, CorrFunc.sample)
    modules = ()
    xval = False

    def __init__(self):
        self.name = "estimator.zero_weight_bin"
        self.bounds = "2 bins x 3 patches of concrete numbers; the term (dd/dr/rr), the bin and auto/cross with zero weights chosen by the engine"

    def make_inputs(self, eng):
        return {"term": eng.choose(3, "term"), "bin": eng.choose(2, "bin"), "auto": eng.choose(2, "auto"), "est": eng.choose(2, "estimator")}

    def concrete_inputs(self, m, inp):
        return dict(inp)

    def body(self, inp):
        B, P = 2, 3
        auto = bool(inp["auto"])
        rng = np.random.default_rng(7)
        binning = conc_binning(B)
        terms = ("dd", "dr", "rr") if inp["est"] == 0 else ("dd", "dr")
        zero_term = ("dd", "dr", "rr")[inp["term"]]
        if zero_term not in terms:
            zero_term = "dr"
        arrs = {}
        for t in terms:
            c = rng.integers(1, 9, (B, P, P)).astype(float)
            if auto:
                c = np.triu(c)
            w1 = rng.integers(1, 9, (B, P)).astype(float)
            w2 = w1 if auto else rng.integers(1, 9, (B, P)).astype(float)
            if t == zero_term:
                w1 = w1.copy()
                w1[inp["bin"]] = 0.0
                c[inp["bin"]] = 0.0
                if auto:
                    w2 = w1
            arrs[t + "_c"], arrs[t + "_w1"] = c, w1
            if not auto:
                arrs[t + "_w2"] = w2
        with np.errstate(all="ignore"):
            cf = CorrFunc(**{t: build_counts(arrs, t, binning, auto) for t in terms})
            cd = cf.sample()
            term = getattr(cf, zero_term).sample_patch_sum()
        b, ob = inp["bin"], 1 - inp["bin"]
        T = {t: normalised(arrs, t, ob, auto) for t in terms}
        exp = (T["dd"] - 2 * T["dr"] + T["rr"]) / T["rr"] if "rr" in terms else T["dd"] / T["dr"] - 1
        return [Check("term_of_empty_bin_not_finite", cond=bool(not np.isfinite(term.data[b]) and not np.any(np.isfinite(term.samples[:, b])))),
                Check("estimate_of_empty_bin_not_finite", cond=bool(not np.isfinite(cd.data[b]))),
                Check("other_bin_unaffected", cd.data[ob], exp)]


class NzFormula(Harness):
    functions = (RedshiftData.from_corrdata,)
    modules = CORR_MODULES
    xval = False  # sqrt uninterpreted

    def __init__(self, B, N, with_ref, with_unk, wrong=None):
        self.B, self.N, self.with_ref, self.with_unk, self.wrong = B, N, with_ref, with_unk, wrong
        self.name = "nz.formula.B%dN%d%s%s" % (B, N, ".ref" if with_ref else "", ".unk" if with_unk else "") + (
            ".twin-" + wrong if wrong else "")
        self.bounds = "bins=%d samples=%d; symbolic bin edges, amplitudes and samples" % (B, N)
        self.assumptions = ("bin edges strictly increasing", "radicands dz^2*w_ss*w_pp positive")
        self.must_fail = wrong is not None

    def make_inputs(self, eng):
        d = {"edges": symarr("e", (self.B + 1,))}
        for i in range(self.B):
            eng.assume(d["edges"][i] < d["edges"][i + 1])
        for t in ["x"] + (["r"] if self.with_ref else []) + (["u"] if self.with_unk else []):
            d[t + "_data"] = symarr(t + "d", (self.B,))
            d[t + "_samples"] = symarr(t + "s", (self.N, self.B))
        return d

    def body(self, inp):
        binning = Binning(inp["edges"].copy())
        mk = lambda t: CorrData(binning, inp[t + "_data"].copy(), inp[t + "_samples"].copy())
        nz = RedshiftData.from_corrdata(mk("x"), mk("r") if self.with_ref else None, mk("u") if self.with_unk else None)
        e = inp["edges"]
        out = [Check("shape", cond=(nz.samples.shape == (self.N, self.B) and nz.data.shape == (self.B,)))]
        for k in [None] + list(range(self.N)):
            sel = (lambda t, b: inp[t + "_data"][b]) if k is None else (lambda t, b: inp[t + "_samples"][k][b])
            got = nz.data if k is None else nz.samples[k]
            tag = "data" if k is None else "sample%d" % k
            lhs, rhs, signs = [], [], []
            for b in range(self.B):
                dz = e[b + 1] - e[b]
                rad = dz * dz if self.wrong != "dz" else dz
                if self.with_ref:
                    rad = rad * sel("r", b)
                if self.with_unk:
                    rad = rad * sel("u", b)
                lhs.append(got[b] * got[b] * rad)
                rhs.append(sel("x", b) * sel("x", b))
                signs.append((got[b] >= 0) == (sel("x", b) >= 0))
            out.append(Check(tag + "_sq", vec(lambda b: lhs[b], self.B), vec(lambda b: rhs[b], self.B), tol=1e-7))
            out.append(Check(tag + "_sign", cond=signs))
        return out


class Normalised(Harness):
    functions = (HistData.normalised, RedshiftData.normalised)
    modules = CORR_MODULES

    def __init__(self, cls, B, N):
        self.cls, self.B, self.N = cls, B, N
        self.name = "normalised.%s.B%dN%d" % (cls.__name__, B, N)
        self.bounds = "bins=%d samples=%d; symbolic edges, values, samples" % (B, N)
        self.assumptions = ("bin edges strictly increasing", "the normalisation integral is non-zero")

    def make_inputs(self, eng):
        d = {"edges": symarr("e", (self.B + 1,)), "data": symarr("d", (self.B,)), "samples": symarr("s", (self.N, self.B))}
        for i in range(self.B):
            eng.assume(d["edges"][i] < d["edges"][i + 1])
        return d

    def body(self, inp):
        e = inp["edges"]
        obj = self.cls(Binning(e.copy()), inp["data"].copy(), inp["samples"].copy())
        new = obj.normalised()
        integral = sum(((e[b + 1] - e[b]) * new.data[b] for b in range(self.B)), 0)
        out = [Check("integral_is_one", integral, 1.0), Check("type", cond=type(new) is self.cls)]
        # the samples carry the same per-bin factor as the value: new.samples[k,b] * data[b] == samples[k,b] * new.data[b]
        lhs = mat(lambda k, b: new.samples[k][b] * inp["data"][b], self.N, self.B)
        rhs = mat(lambda k, b: inp["samples"][k][b] * new.data[b], self.N, self.B)
        out.append(Check("samples_same_factor", lhs, rhs))
        out.append(Check("input_untouched", obj.data, inp["data"]))
        if self.cls is HistData:
            tot = sum((inp["data"][b] for b in range(self.B)), 0)
            out.append(Check("density", vec(lambda b: new.data[b] * (e[b + 1] - e[b]) * tot, self.B), inp["data"]))
        else:
            integ0 = sum(((e[b + 1] - e[b]) * inp["data"][b] for b in range(self.B)), 0)
            out.append(Check("scaled", vec(lambda b: new.data[b] * integ0, self.B), inp["data"]))
        return out


SUBSETS = [s for n in (1, 2, 3) for s in itertools.combinations(("dr", "rd", "rr"), n)]


def harnesses(tier):
    hs = [ZeroWeightBin()]
    B, P = (1, 3) if tier == "quick" else (3, 5)
    for s in SUBSETS:
        for auto in (False, True):
            hs.append(Estimator(s, auto, B, P))
    if tier == "thorough":
        hs.append(Estimator(("dr", "rd", "rr"), False, 1, 4))
        hs.append(Estimator(("dr",), True, 3, 2))
        hs.append(Estimator(("dr", "rr"), True, 1, 5))
    hs.append(Estimator(("dr", "rr"), False, 1, 2, wrong="sign"))
    hs.append(AutoNorm(2, 3))
    hs.append(ReadOnlyAccessors(1, 2, False))
    hs.append(ReadOnlyAccessors(1, 2, True))
    if tier == "thorough":
        hs.append(ReadOnlyAccessors(2, 3, False))
    if tier == "thorough":
        hs.append(AutoNorm(1, 5))
    for ref, unk in ((False, False), (True, False), (False, True), (True, True)):
        hs.append(NzFormula(2 if tier == "quick" else 3, 2 if tier == "quick" else 3, ref, unk))
    hs.append(NzFormula(1, 1, True, False, wrong="dz"))
    for cls in (HistData, RedshiftData):
        hs.append(Normalised(cls, 2, 2))
        if tier == "thorough":
            hs.append(Normalised(cls, 4, 3))
            hs.append(Normalised(cls, 1, 1))
    return hs


if __name__ == "__main__":
    sys.exit(
        runner.main(
            "C04",
            harnesses,
            level="other",
            explanation="Bounded symbolic execution of the real CorrFunc.sample / estimators / RedshiftData.from_corrdata / "
            "normalised() on object arrays of z3 reals for every non-empty subset of {dr, rd, rr} x {auto, cross}; z3 proves "
            "that value and every jackknife sample equal the documented closed formula built from explicit pair and weight "
            "totals (autocorrelation normalisation = half the squared total), that n(z)^2*dz^2*w_ss*w_pp = w_sp^2 with the sign "
            "of w_sp, and that the integral after normalised() is 1.",
            assumptions=[
                "float64 modelled as exact reals (NaN handling of nansum outside the model)",
                "denominators non-zero, radicands positive (side conditions)",
                "RR without DR is not covered by the documented formula: an error or the symmetric replacement is accepted",
                "normalised(target=...) (scipy curve_fit) not covered",
            ],
            trusted_base=["z3", "numpy object-array plumbing", "sqrt axioms y>=0 & y*y=x (vf.uf)"],
        )
    )
