"""C11 -- every persisted product reads back equal to what was written."""
from __future__ import annotations

import itertools
import shutil
import sys
import tempfile

import numpy as np
import z3

import yaw.binning
import yaw.catalog.patch as patch_mod
import yaw.coordinates
import yaw.correlation.corrdata as corrdata_mod
import yaw.correlation.corrfunc
import yaw.correlation.paircounts
import yaw.redshifts
import yaw.utils.abc as abc_mod
import yaw.utils.misc as misc_mod
from yaw.binning import Binning
from yaw.catalog.patch import Metadata
from yaw.coordinates import AngularCoordinates, AngularDistances
from yaw.correlation.corrdata import CorrData
from yaw.correlation.corrfunc import CorrFunc
from yaw.correlation.paircounts import NormalisedCounts, PatchedCounts, PatchedSumWeights
from yaw.redshifts import HistData, RedshiftData

from checks.common import member_auto, CORR_MODULES, build_counts, conc_binning, sym_counts, vec, wrap
from vf import fmtstr, runner, symnp
from vf.runner import Check, Harness
from vf.stubs import fsmodel
from vf.stubs.h5mem import H5Group
from vf.symx import SB, SV, Engine, concretise, sarr, sym, symarr

COMBOS = [c for n in (1, 2, 3) for c in itertools.combinations(("dr", "rd", "rr"), n)]


class Hdf(Harness):
    functions = (CorrFunc.to_hdf, CorrFunc.from_hdf, NormalisedCounts.to_hdf, NormalisedCounts.from_hdf, PatchedCounts.to_hdf,
                 PatchedCounts.from_hdf, PatchedSumWeights.to_hdf, PatchedSumWeights.from_hdf, Binning.to_hdf, Binning.from_hdf)
    modules = CORR_MODULES + (misc_mod,)
    xval = False

    def __init__(self, B, P, wrong=None, full_only=False):
        self.B, self.P, self.wrong, self.full_only = B, P, wrong, full_only
        self.name = "hdf.corrfunc.B%dP%d" % (B, P) + (".full" if full_only else "") + (".twin-" + wrong if wrong else "")
        self.bounds = ("bins=%d patches=%d; all counts (zero / non-zero decided by the solver) and weight sums symbolic; %s, "
                       "auto/cross chosen by the engine") % (B, P, "all of dd/dr/rd/rr present, closed=right" if full_only else
                                                            "which of dr/rd/rr exist (7 combinations) and the closed side chosen by the engine")
        self.must_fail = wrong is not None

    def make_inputs(self, eng):
        if self.full_only:
            d = {"combo": len(COMBOS) - 1, "auto": eng.choose(2, "auto"), "closed": 0}
        else:
            d = {"combo": eng.choose(len(COMBOS), "members"), "auto": eng.choose(2, "auto"), "closed": eng.choose(2, "closed")}
        auto = bool(d["auto"])
        for t in ("dd", "dr", "rd", "rr"):
            d.update(sym_counts(t, self.B, self.P, member_auto(t, auto)))
        # all members share the zero pattern of one symbolic count array (the sparse encoding forks on it once);
        # members remain distinguishable through a member-specific scale factor and their own weight sums
        for k, t in enumerate(("dr", "rd", "rr")):
            d[t + "_c"] = d["dd_c"] * float(k + 2)
        d["edges"] = symarr("e", (self.B + 1,))
        for i in range(self.B):
            eng.assume(d["edges"][i] < d["edges"][i + 1])
        return d

    def concrete_inputs(self, m, inp):
        out = concretise(m, {k: v for k, v in inp.items() if k not in ("combo", "auto", "closed")})
        for k in ("combo", "auto", "closed"):
            out[k] = inp[k]
        return out

    def body(self, inp):
        symbolic = inp["edges"].dtype == object
        auto = bool(inp["auto"])
        binning = Binning(inp["edges"].copy(), closed=("right", "left")[inp["closed"]])
        members = ("dd",) + COMBOS[inp["combo"]]
        if self.wrong == "swap" and "dr" in members and "rd" not in members:
            pass
        kw = {t: build_counts(inp, t, binning, member_auto(t, auto)) for t in members}
        cf = CorrFunc(**kw)
        if symbolic:
            root = H5Group()
            cf.to_hdf(root)
            back = CorrFunc.from_hdf(root)
        else:
            tmp = tempfile.mkdtemp(prefix="c11h_", dir=runner.ROOT + "/scratch")
            try:
                cf.to_file(tmp + "/cf.hdf5")
                back = CorrFunc.from_file(tmp + "/cf.hdf5")
            finally:
                shutil.rmtree(tmp, ignore_errors=True)
        out = [Check("same_members", cond=(set(back.to_dict()) == set(members)))]
        for t in members:
            got = getattr(back, t)
            if got is None:
                continue
            src = t if self.wrong != "swap" else {"dr": "rr", "rr": "dr"}.get(t, t)
            w2 = inp[src + "_w1"] if member_auto(src, auto) else inp[src + "_w2"]
            out.append(Check(t + "_counts", got.counts.counts, inp[src + "_c"]))
            out.append(Check(t + "_sum_weights1", got.sum_weights.sum_weights1, inp[src + "_w1"]))
            out.append(Check(t + "_sum_weights2", got.sum_weights.sum_weights2, w2))
            out.append(Check(t + "_meta", cond=(bool(got.auto) == member_auto(t, auto) and bool(got.sum_weights.auto) == member_auto(t, auto) and got.num_patches == self.P
                                                 and str(got.binning.closed) == str(binning.closed))))
            out.append(Check(t + "_edges", got.binning.edges, inp["edges"]))
        out.append(Check("equal_operator", cond=bool(back == cf)))
        # identical downstream results: sampling the restored container gives the same estimator values
        if self.P >= 2 and ("rr" not in members or "dr" in members):
            a, b = cf.sample(), back.sample()
            out.append(Check("sample_after_roundtrip_data", b.data, a.data))
            out.append(Check("sample_after_roundtrip_samples", b.samples, a.samples))
        return out


class TextFiles(Harness):
    functions = (CorrData.to_files, CorrData.from_files, corrdata_mod.write_data, corrdata_mod.write_samples, corrdata_mod.write_header,
                 corrdata_mod.create_columns, corrdata_mod.load_header, corrdata_mod.load_data, corrdata_mod.load_samples,
                 misc_mod.format_float_fixed_width)
    modules = CORR_MODULES + (misc_mod,)
    xval = False

    def __init__(self, cls, B, N, wrong=None, vmax=10):
        self.cls, self.B, self.N, self.wrong, self.vmax = cls, B, N, wrong, vmax
        self.name = "text.%s.B%dN%d.lt%d" % (cls.__name__, B, N, vmax) + (".twin-" + wrong if wrong else "")
        self.bounds = ("bins=%d samples=%d; edges, values and samples symbolic with |x| < %d and bin widths >= 1/100; closed side "
                       "chosen by the engine") % (B, N, vmax)
        self.assumptions = ("|values| < 1000, bin widths >= 0.01, 0 <= zmin (so that the fixed-width fields keep >= 5 decimals)",)
        self.must_fail = wrong is not None

    def make_inputs(self, eng):
        d = {"edges": symarr("e", (self.B + 1,)), "data": symarr("d", (self.B,)), "samples": symarr("s", (self.N, self.B)),
             "closed": eng.choose(2, "closed")}
        eng.assume((d["edges"][0] >= 0) & (d["edges"][-1] < min(100, self.vmax)))
        for i in range(self.B):
            eng.assume(d["edges"][i + 1] - d["edges"][i] >= 0.01)
        for v in list(d["data"]) + list(d["samples"].ravel()):
            eng.assume((v > -self.vmax) & (v < self.vmax))
        return d

    def concrete_inputs(self, m, inp):
        out = concretise(m, {k: inp[k] for k in ("edges", "data", "samples")})
        out["closed"] = inp["closed"]
        return out

    def body(self, inp):
        symbolic = inp["edges"].dtype == object
        closed = ("right", "left")[inp["closed"]]
        obj = self.cls(Binning(inp["edges"].copy(), closed=closed), inp["data"].copy(), inp["samples"].copy())
        if symbolic:
            fmtstr.reset()
            fs = fsmodel.FS()
            fs.path("/out").mkdir()
            P = fsmodel.make_path_class(fs)
            old = corrdata_mod.Path
            corrdata_mod.Path = P
            # the covariance (and its square-root error column) is written for convenience only: keep it cheap
            try:
                obj.to_files("/out/nz")
                back = self.cls.from_files("/out/nz")
                header = fs.path("/out/nz.dat").read_text().splitlines()[:2]
            finally:
                corrdata_mod.Path = old
        else:
            tmp = tempfile.mkdtemp(prefix="c11t_", dir=runner.ROOT + "/scratch")
            try:
                obj.to_files(tmp + "/nz")
                back = self.cls.from_files(tmp + "/nz")
                header = open(tmp + "/nz.dat").read().splitlines()[:2]
            finally:
                shutil.rmtree(tmp, ignore_errors=True)
        tol = 2e-5 if self.wrong != "tight" else 1e-12
        near = lambda a, b: (abs(a - b) <= tol)
        out = [Check("type_and_shape", cond=(type(back) is self.cls and back.data.shape == (self.B,) and back.samples.shape == (self.N, self.B))),
               Check("closed_side", cond=(str(back.binning.closed) == closed)),
               Check("num_bins", cond=(len(back.binning) == self.B)),
               Check("edges", cond=[near(a, b) for a, b in zip(list(back.binning.edges), list(inp["edges"]))]),
               Check("data", cond=[near(a, b) for a, b in zip(list(back.data), list(inp["data"]))]),
               Check("samples", cond=[near(back.samples[k][b], inp["samples"][k][b]) for k in range(self.N) for b in range(self.B)]),
               Check("header_marks_closed_side", cond=(("[z_low" in header[1]) == (closed == "left")))]
        return out


class TextSpecial(Harness):
    """non-finite values (outside the real-number model) through the real text files: concrete sentinels"""

    functions = (misc_mod.format_float_fixed_width, corrdata_mod.write_data, corrdata_mod.load_data)
    modules = ()
    xval = False
    SPECIAL = (float("nan"), float("inf"), float("-inf"), -0.0, 1e-12, -123.456789012)

    def __init__(self):
        self.name = "text.special_values"
        self.bounds = "one value or sample replaced by nan / +inf / -inf / -0.0 / tiny / negative; 1-2 bins; class and position chosen by the engine"

    def make_inputs(self, eng):
        return {"val": eng.choose(len(self.SPECIAL), "value"), "where": eng.choose(2, "data_or_sample"), "bins": 1 + eng.choose(2, "bins"),
                "cls": eng.choose(3, "class")}

    def concrete_inputs(self, m, inp):
        return dict(inp)

    def body(self, inp):
        cls = (CorrData, RedshiftData, HistData)[inp["cls"]]
        B = inp["bins"]
        v = self.SPECIAL[inp["val"]]
        data = 1.0 + np.arange(B)
        samples = 2.0 + np.arange(3 * B).reshape(3, B)
        if inp["where"] == 0:
            data[B - 1] = v
        else:
            samples[1, 0] = v
        obj = cls(conc_binning(B), data, samples)
        tmp = tempfile.mkdtemp(prefix="c11s_", dir=runner.ROOT + "/scratch")
        try:
            obj.to_files(tmp + "/nz")
            back = cls.from_files(tmp + "/nz")
        finally:
            shutil.rmtree(tmp, ignore_errors=True)
        same = lambda a, b: bool(np.all((np.isnan(a) & np.isnan(b)) | (np.isinf(a) & np.isinf(b) & (np.sign(a) == np.sign(b))) | (np.abs(a - b) <= 1e-4)))
        return [Check("data", cond=(back.data.shape == data.shape and same(back.data, data))),
                Check("samples", cond=(back.samples.shape == samples.shape and same(back.samples, samples)))]


class FixedWidth(Harness):
    functions = (misc_mod.format_float_fixed_width,)
    modules = (misc_mod,)
    xval = False

    def __init__(self):
        self.name = "format_float_fixed_width"
        self.bounds = "one symbolic value with |v| < 1000, width 10"

    def make_inputs(self, eng):
        d = {"v": sym("v")}
        eng.assume((d["v"] > -1000) & (d["v"] < 1000))
        return d

    def body(self, inp):
        v = inp["v"]
        symbolic = isinstance(v, SV)
        if symbolic:
            fmtstr.reset()
        s = misc_mod.format_float_fixed_width(v, 10)
        out = [Check("width_is_10", cond=(len(s) == 10)), Check("no_inner_blank", cond=(" " not in s[1:]))]
        if symbolic:
            p, bound = fmtstr.parse_token(s)
            out.append(Check("parsed_close", cond=SB(z3.And((p - v).e <= 0.0001, (v - p).e <= 0.0001))))
        else:
            out.append(Check("parsed_close", cond=(abs(float(s) - v) <= 1e-4)))
        return out


class MetaYaml(Harness):
    functions = (Metadata.to_dict, Metadata.from_dict, abc_mod.YamlSerialisable.to_file, abc_mod.YamlSerialisable.from_file, misc_mod.write_yaml)
    modules = (patch_mod, abc_mod, misc_mod, yaw.coordinates)
    xval = False

    def __init__(self):
        self.name = "metadata.yaml"
        self.bounds = "patch metadata with symbolic sum of weights, centre and radius; YAML dump/load modelled as identity on native trees"
        self.assumptions = ("PyYAML round-trips python floats exactly (repr-based) -- trusted; checked concretely in the replay",)

    def make_inputs(self, eng):
        d = {k: sym(k) for k in ("sw", "ra", "dec", "rad")}
        return d

    def body(self, inp):
        symbolic = isinstance(inp["sw"], SV)
        mk = (lambda *v: sarr(list(v))) if symbolic else (lambda *v: np.array(v, dtype=float))
        meta = Metadata(num_records=7, sum_weights=inp["sw"], center=AngularCoordinates(mk(inp["ra"], inp["dec"])),
                        radius=AngularDistances(mk(inp["rad"])))
        d = meta.to_dict()
        native = all(isinstance(x, (int, float, SV)) and not isinstance(x, (np.floating, np.integer)) for x in
                     [d["num_records"], d["sum_weights"], d["radius"]] + list(d["center"]))
        out = [Check("dict_leaves_are_native", cond=bool(native)), Check("dict_keys", cond=(sorted(d) == ["center", "num_records", "radius", "sum_weights"]))]
        if symbolic:
            back = Metadata.from_dict({k: (list(v) if isinstance(v, list) else v) for k, v in d.items()})
        else:
            tmp = tempfile.mkdtemp(prefix="c11m_", dir=runner.ROOT + "/scratch")
            try:
                meta.to_file(tmp + "/meta.yml")
                back = Metadata.from_file(tmp + "/meta.yml")
            finally:
                shutil.rmtree(tmp, ignore_errors=True)
        out += [Check("num_records", cond=(back.num_records == 7)), Check("sum_weights", back.sum_weights, inp["sw"], tol=0),
                Check("center", back.center.data, mk(inp["ra"], inp["dec"]).reshape(1, 2), tol=0),
                Check("radius", back.radius.data, mk(inp["rad"]), tol=0)]
        return out


class ConfigYaml(Harness):
    """configurations through a YAML file (real PyYAML text, real write_yaml re-indentation) on the file-system model"""

    functions = (abc_mod.YamlSerialisable.to_file, abc_mod.YamlSerialisable.from_file, misc_mod.write_yaml, misc_mod.transform_matches)
    modules = ()
    xval = False

    METHODS = ("linear", "comoving", "logspace", "custom")
    UNITS = ("kpc", "Mpc", "rad", "deg", "arcmin", "arcsec", "kpc/h", "Mpc/h")

    def __init__(self):
        self.name = "config.yaml_file"
        self.bounds = ("concrete parameter values; binning method (4) x closed side (2) x unit (8) x single/multiple scales x "
                       "rweight set/unset x cosmology name (2) -- every combination chosen by the engine")
        self.assumptions = ("edges regenerated for comoving/logspace are compared to 1e-8 (float identity not decidable here)",)

    def make_inputs(self, eng):
        return {"method": eng.choose(4, "method"), "closed": eng.choose(2, "closed"), "unit": eng.choose(8, "unit"),
                "multi": eng.choose(2, "scales"), "rw": eng.choose(2, "rweight"), "cosmo": eng.choose(2, "cosmology")}

    def concrete_inputs(self, m, inp):
        return dict(inp)

    def body(self, inp):
        from yaw.config import Configuration

        method = self.METHODS[inp["method"]]
        kw = dict(rmin=[100.0, 250.5] if inp["multi"] else 100.0, rmax=[1000.0, 2500.25] if inp["multi"] else 1000.0,
                  unit=self.UNITS[inp["unit"]], rweight=-0.75 if inp["rw"] else None, resolution=25 if inp["rw"] else None,
                  closed=("right", "left")[inp["closed"]], cosmology=("Planck15", "WMAP9")[inp["cosmo"]], max_workers=3)
        if method == "custom":
            kw.update(edges=[0.125, 0.3, 0.55, 1.0625])
        else:
            kw.update(zmin=0.125, zmax=1.0625, num_bins=3, method=method)
        cfg = Configuration.create(**kw)
        if Engine.cur is not None:
            fs = fsmodel.FS()
            fs.path("/out").mkdir()
            old = abc_mod.Path
            abc_mod.Path = fsmodel.make_path_class(fs)
            try:
                cfg.to_file("/out/config.yml")
                back = Configuration.from_file("/out/config.yml")
            finally:
                abc_mod.Path = old
        else:
            tmp = tempfile.mkdtemp(prefix="c11c_", dir=runner.ROOT + "/scratch")
            try:
                cfg.to_file(tmp + "/config.yml")
                back = Configuration.from_file(tmp + "/config.yml")
            finally:
                shutil.rmtree(tmp, ignore_errors=True)
        tol = 0 if method in ("linear", "custom") else 1e-8
        return [Check("edges", back.binning.edges, cfg.binning.edges, tol=tol),
                Check("binning_meta", cond=(back.binning.method == cfg.binning.method and back.binning.closed == cfg.binning.closed)),
                Check("scales", np.atleast_1d(back.scales.scales.scale_min), np.atleast_1d(cfg.scales.scales.scale_min), tol=0),
                Check("scales_max", np.atleast_1d(back.scales.scales.scale_max), np.atleast_1d(cfg.scales.scales.scale_max), tol=0),
                Check("scales_meta", cond=(back.scales.unit == cfg.scales.unit and back.scales.rweight == cfg.scales.rweight
                                           and back.scales.resolution == cfg.scales.resolution)),
                Check("cosmology", cond=(back.cosmology.name == cfg.cosmology.name)),
                Check("max_workers", cond=(back.max_workers == cfg.max_workers)),
                Check("scales_equal_operator", cond=bool(back.scales == cfg.scales))]


def harnesses(tier):
    hs = [Hdf(1, 2), Hdf(2, 1), ConfigYaml(), FixedWidth(), TextSpecial(), TextFiles(CorrData, 1, 1, vmax=1000), TextFiles(RedshiftData, 2, 2), MetaYaml()]
    if tier == "thorough":
        hs += [Hdf(2, 2), Hdf(1, 3, full_only=True), TextFiles(HistData, 3, 2), TextFiles(CorrData, 3, 2), TextFiles(CorrData, 1, 2, vmax=1000)]
    hs += [Hdf(1, 2, wrong="swap"), TextFiles(CorrData, 1, 1, wrong="tight")]
    return hs


if __name__ == "__main__":
    sys.exit(
        runner.main(
            "C11",
            harnesses,
            level="other",
            explanation="Bounded symbolic execution of the real serialisation code: (HDF5) CorrFunc/NormalisedCounts/PatchedCounts "
            "(sparse encoding)/PatchedSumWeights/Binning to_hdf + from_hdf over an in-memory h5py model with all counts symbolic, "
            "so that the solver chooses which entries are zero, for all 7 member combinations x auto/cross; (text) "
            "CorrData/RedshiftData/HistData to_files + from_files over the file-system model with symbolic edges, values and "
            "samples, number formatting modelled as shaped symbolic fields (truncation to the kept decimals); (YAML) patch metadata. "
            "Configurations through dictionaries are covered by C15 (equal.and.dict_roundtrip).",
            assumptions=[
                "libhdf5 / h5py, PyYAML and np.loadtxt internals are replaced by models (a dataset/file returns what was stored; "
                "CPython renders the correctly rounded decimal expansion); NaN/inf payloads are outside the real-number model",
                "float identity of bin edges regenerated from (zmin, zmax, method) for comoving/logspace binnings is NOT decidable "
                "here (reals); observed to differ at the 1e-9 level in float64 -- see DESIGN.md",
                "text precision: |x| < 1000 and bin widths >= 0.01 so that >= 5 decimals survive the fixed width",
                "catalogs through their cache directory: C02/C08",
            ],
            trusted_base=["z3", "vf.stubs.h5mem", "vf.stubs.fsmodel", "vf.fmtstr"],
        )
    )
