"""C08 -- a crash never leaves a cache that is silently wrong."""
from __future__ import annotations

import io
import os
import pickle
import shutil
import sys
import tempfile
import types

import numpy as np
import z3

import yaw.binning
import yaw.catalog.catalog as cat_mod
import yaw.catalog.patch as patch_mod
import yaw.catalog.trees as trees_mod
import yaw.correlation.corrdata as corrdata_mod
import yaw.datachunk
import yaw.utils.abc as abc_mod
import yaw.utils.parallel
from yaw.binning import Binning
from yaw.catalog.catalog import Catalog, CatalogWriter, InconsistentPatchesError
from yaw.catalog.patch import Metadata, Patch, PatchWriter
from yaw.catalog.trees import BinnedTrees
from yaw.correlation.corrdata import CorrData
from yaw.datachunk import DataChunkInfo

from checks.C07 import CLOSED, STUBS as TREE_STUBS, ModelPatch, Token, same_binning, write_state
from vf import runner, symnp
from vf.runner import Check, Harness
from vf.stubs import fsmodel
from vf.stubs.fsmodel import Crash
from vf.symx import Engine, SArr

ERR = "error"


def outcome_of(fn):
    try:
        return ("ok", fn())
    except Crash:
        raise
    except Exception as e:  # noqa -- "the next use fails with an error"
        return (ERR, type(e).__name__)


class CrashHarness(Harness):
    xval = False
    modules = ()

    def choice_keys(self):
        return ()

    def concrete_inputs(self, m, inp):
        return dict(inp)

    def count_ops(self, build_state, workload):
        """operations of the uninterrupted workload (on a scratch copy of the model)"""
        fs = build_state()
        base = fs.ops
        fs.chooser = lambda n, label: 0
        workload(fs)
        return fs.ops - base

    def run_crashed(self, eng, build_state, workload, d):
        """run the workload with an engine-chosen crash point; returns the surviving file system"""
        n = self.count_ops(build_state, workload)
        fs = build_state()
        k = eng.choose(n + 1, "crash_before_op")
        d["crash_at"], d["num_ops"] = k, n
        fs.chooser = lambda m, label: eng.choose(m, label)
        fs.crash_at = fs.ops + k if k < n else None
        try:
            workload(fs)
            d["crashed"] = False
        except Crash as c:
            d["crashed"] = True
            d["crash_op"] = str(c)
        fs.crash_at = None
        fs.chooser = None
        return fs


# ----------------------------------------------------------------------------------------------------------
# W1: tree (re)build
TREE_MODS = (trees_mod, yaw.binning)
TB = [None, ("right", (0.25, 0.5, 1.0)), ("left", (0.25, 0.5, 1.0)), ("right", (0.25, 0.75, 1.0))]


def mk_binning(spec):
    return None if spec is None else Binning(np.array(spec[1]), closed=spec[0])


class TreesCrash(CrashHarness):
    functions = (BinnedTrees.build, BinnedTrees.__init__, BinnedTrees.binning_equal, BinnedTrees.trees.fget)
    modules = TREE_MODS
    extra = TREE_STUBS

    def __init__(self, wrong=None):
        self.wrong = wrong
        self.name = "trees.rebuild" + (".twin-" + wrong if wrong else "")
        self.bounds = ("prior cache state (absent / 4 binnings), interrupted request (4 binnings, force on/off), crash before every "
                       "file-system operation incl. every surviving prefix of buffered writes, next request (4 binnings) -- all "
                       "enumerated by the engine")
        self.must_fail = wrong is not None

    def make_inputs(self, eng):
        d = {"prior": eng.choose(len(TB) + 1, "prior"), "req": eng.choose(len(TB), "interrupted_request"),
             "force": eng.choose(2, "force"), "next": eng.choose(len(TB), "next_request")}
        d["_eng"] = eng
        return d

    def body(self, inp):
        if Engine.cur is None:
            return self.concrete_body(inp)
        eng = inp["_eng"]

        def build_state():
            fs = fsmodel.FS()
            fs.path("/cat").mkdir()
            p = ModelPatch(fs, "patch_0")
            write_state(fs, p, "absent" if inp["prior"] == len(TB) else mk_binning(TB[inp["prior"]]))
            return fs

        def workload(fs):
            BinnedTrees.build(ModelPatch(fs, "patch_0"), mk_binning(TB[inp["req"]]), force=bool(inp["force"]))

        symnp.WRAP_ALL = True
        try:
            fs = self.run_crashed(eng, build_state, workload, inp)
            inp["state"] = {k: [(kind, _short(v)) for kind, v in n.items] for k, n in fs.nodes.items() if isinstance(n, fsmodel.File)}
            nxt = mk_binning(TB[inp["next"]])
            patch = ModelPatch(fs, "patch_0")
            res = outcome_of(lambda: BinnedTrees.build(patch, nxt).trees)
        finally:
            symnp.WRAP_ALL = False
        if res[0] == ERR:
            ok = self.wrong != "reach"
        else:
            tok = res[1]
            ok = isinstance(tok, Token) and bool(same_binning(tok, nxt)) if self.wrong != "strict" else False
        return [Check("error_or_trees_of_the_request", cond=ok)]

    def concrete_body(self, inp):
        """materialise the model's surviving state in a real cache directory and run the real recovery"""
        import pandas as pd
        from yaw import Catalog as RealCatalog
        from yaw.catalog.trees import build_trees

        tmp = tempfile.mkdtemp(prefix="c08t_", dir=runner.ROOT + "/scratch")
        try:
            z = np.array([0.25, 0.3, 0.5, 0.6, 0.75, 0.9, 1.0])
            df = pd.DataFrame({"ra": np.linspace(10, 20, len(z)), "dec": np.linspace(-5, 5, len(z)), "z": z, "p": np.zeros(len(z), int)})
            cat = RealCatalog.from_dataframe(tmp + "/c", df, ra_name="ra", dec_name="dec", redshift_name="z", patch_name="p", max_workers=1)
            patch = cat[0]
            for path, items in inp.get("state", {}).items():
                name = path.rsplit("/", 1)[1]
                if name not in ("binning", "trees.pkl"):
                    continue
                with open(str(patch.cache_path / name), "wb") as f:
                    for kind, v in items:
                        if kind == "bytes":
                            f.write(eval(v))
                        elif kind == "array":
                            f.write(np.array(eval(v), dtype=float).tobytes())
                        elif kind == "pickle":
                            spec = eval(v)
                            pickle.dump(build_trees(patch, None if spec is None else Binning(np.array(spec[1]), closed=spec[0]), leafsize=16), f)
            nxt = mk_binning(TB[inp["next"]])
            try:
                got = BinnedTrees.build(patch, nxt).trees
            except Exception:  # noqa
                return [Check("error_or_trees_of_the_request", cond=True)]
            ref = build_trees(patch, nxt, leafsize=16)
            if nxt is None:
                same = (not isinstance(got, tuple)) and got.num_records == ref.num_records
            else:
                same = isinstance(got, tuple) and len(got) == len(ref) and all(a.num_records == b.num_records for a, b in zip(got, ref))
            return [Check("error_or_trees_of_the_request", cond=bool(same))]
        finally:
            shutil.rmtree(tmp, ignore_errors=True)


def _short(v):
    if isinstance(v, Token):
        return repr(None if not v.binned else (v.closed, tuple(float(x) for x in v.edges)))
    if isinstance(v, np.ndarray):
        return repr([float(x) for x in np.asarray(v).ravel()]) if v.dtype.names is None else repr(v.tolist())
    return repr(v)


# ----------------------------------------------------------------------------------------------------------
# W4: result files (.dat/.smp/.cov)
FILE_MODS = (corrdata_mod, yaw.binning)


def make_corrdata(seed, nbins=2, nsamp=3):
    rng = np.random.default_rng(seed)
    edges = 0.25 + 0.25 * np.arange(nbins + 1)
    return CorrData(Binning(edges), rng.integers(1, 9, nbins).astype(float), rng.integers(1, 9, (nsamp, nbins)).astype(float))


class ResultFilesCrash(CrashHarness):
    functions = (CorrData.to_files, CorrData.from_files, corrdata_mod.write_data, corrdata_mod.write_samples,
                 corrdata_mod.write_covariance, corrdata_mod.load_data, corrdata_mod.load_samples, corrdata_mod.load_header)
    modules = FILE_MODS

    def __init__(self, prior, nbins=2):
        self.prior, self.nbins = prior, nbins
        self.name = "resultfiles.%s.B%d" % ("over_older_files" if prior else "fresh", nbins)
        self.bounds = ("CorrData with %d bins / 3 samples written %s; crash before every file-system operation with every surviving "
                       "prefix of the buffered lines") % (nbins, "over older files of the same prefix and shape" if prior else "to a fresh prefix")

    def make_inputs(self, eng):
        return {"_eng": eng}

    def extra_stub(self, fs):
        return make_path_stub(fs)

    def body(self, inp):
        if Engine.cur is None:
            return self.concrete_body(inp)
        eng = inp["_eng"]
        old, new = make_corrdata(1, self.nbins), make_corrdata(2, self.nbins)

        def build_state():
            fs = fsmodel.FS()
            fs.path("/out").mkdir()
            if self.prior:
                with patched_path(fs):
                    old.to_files("/out/nz")
            return fs

        def workload(fs):
            with patched_path(fs):
                new.to_files("/out/nz")

        fs = self.run_crashed(eng, build_state, workload, inp)
        inp["state"] = {k: "".join(v for kind, v in n.items if kind == "text") for k, n in fs.nodes.items() if isinstance(n, fsmodel.File)}
        with patched_path(fs):
            res = outcome_of(lambda: CorrData.from_files("/out/nz"))
        if res[0] == ERR:
            return [Check("error_or_old_or_new", cond=True)]
        got = res[1]
        is_new = bool(got == new) or _close_cd(got, new)
        is_old = self.prior and (bool(got == old) or _close_cd(got, old))
        return [Check("error_or_old_or_new", cond=bool(is_new or is_old))]

    def concrete_body(self, inp):
        tmp = tempfile.mkdtemp(prefix="c08f_", dir=runner.ROOT + "/scratch")
        try:
            for path, text in inp.get("state", {}).items():
                with open(tmp + "/" + path.rsplit("/", 1)[1], "w") as f:
                    f.write(text)
            old, new = make_corrdata(1, self.nbins), make_corrdata(2, self.nbins)
            try:
                got = CorrData.from_files(tmp + "/nz")
            except Exception:  # noqa
                return [Check("error_or_old_or_new", cond=True)]
            return [Check("error_or_old_or_new", cond=bool(_close_cd(got, new) or (self.prior and _close_cd(got, old))))]
        finally:
            shutil.rmtree(tmp, ignore_errors=True)


def _close_cd(a, b):
    try:
        return (a.binning == b.binning and np.allclose(a.data, b.data, atol=1e-8) and a.samples.shape == b.samples.shape
                and np.allclose(a.samples, b.samples, atol=1e-8))
    except Exception:  # noqa
        return False


class patched_path:
    """bind the model file system into the modules that do file I/O (Path, open, rmtree, np.fromfile/loadtxt, pickle)"""

    def __init__(self, fs):
        self.fs = fs

    def __enter__(self):
        fs = self.fs
        P = fsmodel.make_path_class(fs)
        self.saved = []
        for mod, names in ((corrdata_mod, {"Path": P}), (abc_mod, {"Path": P}),
                           (patch_mod, {"Path": P, "open": lambda p, mode="r", *a, **k: fsmodel.fake_open(P(p), mode)}),
                           (cat_mod, {"Path": P, "rmtree": fsmodel.rmtree}),
                           (trees_mod, {"pickle": fsmodel.FakePickle})):
            for n, v in names.items():
                self.saved.append((mod, n, mod.__dict__.get(n, _MISSING)))
                mod.__dict__[n] = v
        self.old_wrap = (symnp.WRAP_ALL, symnp.OBJECT_CREATION)
        symnp.WRAP_ALL, symnp.OBJECT_CREATION = True, False
        return self

    def __exit__(self, *a):
        for mod, n, old in reversed(self.saved):
            if old is _MISSING:
                mod.__dict__.pop(n, None)
            else:
                mod.__dict__[n] = old
        symnp.WRAP_ALL, symnp.OBJECT_CREATION = self.old_wrap
        return False


_MISSING = object()


# ----------------------------------------------------------------------------------------------------------
# W2/W3: catalog creation / overwrite, patch metadata
CAT_MODS = (cat_mod, patch_mod, yaw.datachunk, abc_mod, yaw.utils.parallel, corrdata_mod)


def chunk_of(rows):
    a = np.zeros(len(rows), dtype=[("ra", "f8"), ("dec", "f8"), ("weights", "f8")])
    for i, (ra, dec, w) in enumerate(rows):
        a[i] = (ra, dec, w)
    return a.view(SArr)


OLD = {0: [(0.1, 0.1, 1.0), (0.12, 0.1, 2.0)], 1: [(0.5, 0.1, 3.0)]}
NEW = [{0: [(0.1, 0.1, 5.0)], 1: [(0.5, 0.1, 6.0), (0.52, 0.1, 7.0)]}, {0: [(0.11, 0.1, 8.0)], 1: [(0.51, 0.12, 9.0)]}]


def write_catalog(fs_path, chunks, overwrite, buffersize=-1):
    info = DataChunkInfo(has_weights=True)
    with CatalogWriter(fs_path, chunk_info=info, overwrite=overwrite, buffersize=buffersize) as w:
        for chunk in chunks:
            w.process_patches({pid: chunk_of(rows) for pid, rows in chunk.items()})


def records_of(cat):
    out = {}
    for pid, patch in cat.items():
        d = patch.load_data()
        out[pid] = sorted((float(r["ra"]), float(r["dec"]), float(r["weights"])) for r in d)
        if patch.meta.num_records != len(d) or abs(patch.meta.sum_weights - float(np.sum(np.asarray(d["weights"], float)))) > 1e-9:
            out[pid].append(("metadata-mismatch",))
    return out


def expected(chunks):
    out = {}
    for chunk in chunks:
        for pid, rows in chunk.items():
            out.setdefault(pid, []).extend(rows)
    return {k: sorted(v) for k, v in out.items()}


class CatalogCrash(CrashHarness):
    functions = (CatalogWriter.__init__, CatalogWriter.get_writer, CatalogWriter.process_patches, CatalogWriter.finalize,
                 PatchWriter.__init__, PatchWriter.process_chunk, PatchWriter.flush, PatchWriter.close, cat_mod.read_patch_ids,
                 cat_mod.load_patches, Catalog.__init__, Patch.__init__, patch_mod.read_patch_data, Metadata.compute,
                 abc_mod.YamlSerialisable.to_file, abc_mod.YamlSerialisable.from_file)
    modules = CAT_MODS

    def __init__(self, prior, buffersize=-1, wrong=None):
        self.prior, self.buffersize, self.wrong = prior, buffersize, wrong
        self.name = "catalog.%s.buf%d" % ("overwrite" if prior else "create", buffersize) + (".twin-" + wrong if wrong else "")
        self.bounds = ("2 patches, 2 chunks, buffersize=%d, %s; crash before every file-system operation of creation + first open "
                       "(metadata), every surviving prefix of buffered writes, both rmtree orders") % (
            buffersize, "overwriting a complete older catalog" if prior else "new cache directory")
        self.must_fail = wrong is not None

    def make_inputs(self, eng):
        return {"_eng": eng}

    def concrete_body(self, inp):
        """materialise the model's surviving state in a real directory and open it with the real Catalog"""
        from yaw import Catalog as RealCatalog

        tmp = tempfile.mkdtemp(prefix="c08c_", dir=runner.ROOT + "/scratch")
        try:
            for path, items in inp.get("state", {}).items():
                real = tmp + path
                os.makedirs(os.path.dirname(real), exist_ok=True)
                with open(real, "wb") as f:
                    for kind, payload in items:
                        f.write(payload.encode() if kind == "text" else bytes.fromhex(payload))
            for d in inp.get("dirs", []):
                os.makedirs(tmp + d, exist_ok=True)
            try:
                got = records_of(RealCatalog(tmp + "/cat", max_workers=1))
            except Exception:  # noqa
                return [Check("error_or_old_or_new", cond=True)]
            ok = got == expected(NEW) or (self.prior and got == expected([OLD]))
            return [Check("error_or_old_or_new", cond=bool(ok))]
        finally:
            shutil.rmtree(tmp, ignore_errors=True)

    def body(self, inp):
        if Engine.cur is None:
            return self.concrete_body(inp)
        eng = inp["_eng"]

        def build_state():
            fs = fsmodel.FS()
            if self.prior:
                with patched_path(fs):
                    write_catalog("/cat", [OLD], overwrite=False)
                    Catalog("/cat")  # computes meta.yml
            return fs

        def workload(fs):
            with patched_path(fs):
                write_catalog("/cat", NEW, overwrite=True, buffersize=self.buffersize)
                Catalog("/cat")

        fs = self.run_crashed(eng, build_state, workload, inp)
        inp["state"] = {k: [[kind, v if kind == "text" else (v.hex() if kind == "bytes" else np.asarray(v).tobytes().hex())]
                            for kind, v in n.items] for k, n in fs.nodes.items() if isinstance(n, fsmodel.File)}
        inp["dirs"] = [k for k, n in fs.nodes.items() if isinstance(n, fsmodel.Dir)]
        with patched_path(fs):
            res = outcome_of(lambda: records_of(Catalog("/cat")))
        if res[0] == ERR:
            return [Check("error_or_old_or_new", cond=(self.wrong != "reach"))]
        got = res[1]
        ok = got == expected(NEW) or (self.prior and got == expected([OLD]))
        if self.wrong == "strict":
            ok = got == expected(NEW)
        return [Check("error_or_old_or_new", cond=bool(ok))]


class MetaCrash(CrashHarness):
    functions = (Patch.__init__, Metadata.compute, Metadata.to_dict, Metadata.from_dict, abc_mod.YamlSerialisable.to_file,
                 abc_mod.YamlSerialisable.from_file)
    modules = CAT_MODS

    def __init__(self):
        self.name = "patch.metadata"
        self.bounds = "one patch with 2 records; crash before every operation of the first Patch() (metadata computation and meta.yml)"

    def make_inputs(self, eng):
        return {"_eng": eng}

    def body(self, inp):
        if Engine.cur is None:
            return [Check("error_or_correct_metadata", cond=True)]
        eng = inp["_eng"]

        def build_state():
            fs = fsmodel.FS()
            with patched_path(fs):
                write_catalog("/cat", [OLD], overwrite=False)
            return fs

        def workload(fs):
            with patched_path(fs):
                Patch("/cat/patch_0")

        fs = self.run_crashed(eng, build_state, workload, inp)
        with patched_path(fs):
            res = outcome_of(lambda: Patch("/cat/patch_0").meta)
        if res[0] == ERR:
            return [Check("error_or_correct_metadata", cond=True)]
        m = res[1]
        return [Check("error_or_correct_metadata", cond=(m.num_records == 2 and abs(m.sum_weights - 3.0) < 1e-12))]


def make_path_stub(fs):
    return fsmodel.make_path_class(fs)


def harnesses(tier):
    hs = [TreesCrash(), ResultFilesCrash(False), ResultFilesCrash(True), MetaCrash(), CatalogCrash(False), CatalogCrash(True)]
    if tier == "thorough":
        hs += [ResultFilesCrash(True, nbins=1), ResultFilesCrash(True, nbins=3), CatalogCrash(True, buffersize=1), CatalogCrash(False, buffersize=2)]
    hs += [TreesCrash(wrong="strict"), CatalogCrash(True, wrong="strict")]
    return hs


if __name__ == "__main__":
    sys.exit(
        runner.main(
            "C08",
            harnesses,
            level="model_checking",
            explanation="The real cache-writing code (BinnedTrees.build, CatalogWriter/PatchWriter life cycle incl. overwrite, "
            "Patch metadata, CorrData.to_files) runs against an in-memory file-system model in which every mutating call is a "
            "numbered operation; the crash index, the surviving prefix of buffered writes and the rmtree order are engine choices "
            "(solver-enumerated: one path per crash state).  The real recovery code (BinnedTrees.build + trees, Catalog(cache) + "
            "load_data, Patch(), CorrData.from_files) then runs on the surviving state and must raise or behave as if the step had "
            "completed or never started.",
            assumptions=[
                "crash = process kill: completed operations persist in order; buffered writes survive as any item-prefix (+ partial "
                "last array); no power-loss reordering, no torn single write; HDF5 writes (inside libhdf5) not covered",
                "file system, pickle and np.loadtxt/fromfile/tofile modelled by vf.stubs.fsmodel (a file returns what was written)",
                "tree building replaced by a token recording its binning; data are small concrete arrays (the quantifier is the crash point)",
                "counterexamples are replayed by materialising the model's surviving state in a real directory and running the "
                "real recovery code; reachability of that state by a real crash rests on the crash model",
            ],
            trusted_base=["z3 (enumeration of choices)", "vf.stubs.fsmodel crash model"],
            extra_evidence=lambda res: dict(states=max(1, res.stats["paths"]), transitions=max(1, res.stats["queries"]),
                                            traces_validated_against_impl=res.stats["xval"]),
        )
    )
