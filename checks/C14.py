"""C14 -- spherical geometry primitives (real-arithmetic exactness; the floating-point error bounds are NOT claimed)."""
from __future__ import annotations

import math
import sys

import numpy as np
import z3

import yaw.coordinates as CO
from yaw.coordinates import AngularCoordinates, AngularDistances, sgn

from checks.common import vec, wrap
from vf import runner, uf
from vf.runner import Check, Harness
from vf.symx import SB, SV, Engine, concretise, sarr, sym, symarr

MODS = (CO,)


def pi_of(x):
    return uf.pi() if isinstance(x, SV) else math.pi


def coords(ra, dec):
    if isinstance(ra, SV) or isinstance(dec, SV):
        return AngularCoordinates(sarr([[ra, dec]]))
    return AngularCoordinates(np.array([[ra, dec]], dtype=float))


def sos_hint(p, q):
    """sum of squares of real numbers is non-negative (universally valid; helps the solver see chord^2 <= 4)"""
    eng = Engine.cur
    if eng is None:
        return
    terms = [(p[i] + q[i]) for i in range(3)]
    if any(isinstance(t, SV) for t in terms):
        eng.add_axiom(sum((t * t for t in terms), 0).e >= 0)
        eng.add_axiom(sum(((p[i] - q[i]) * (p[i] - q[i]) for i in range(3)), 0).e >= 0)


def assume_on_sphere(eng, ra, dec):
    PI = uf.pi()
    eng.assume((ra >= 0) & (ra < 2 * PI) & (dec >= -PI / 2) & (dec <= PI / 2))


class RoundTrip(Harness):
    functions = (AngularCoordinates.to_3d, AngularCoordinates.from_3d, sgn)
    modules = MODS
    xval = False

    def __init__(self, wrong=None):
        self.wrong = wrong
        self.name = "coords.roundtrip" + (".twin-" + wrong if wrong else "")
        self.bounds = "one point, ra in [0,2pi), dec in [-pi/2,pi/2] symbolic (poles and ra=0 included)"
        self.must_fail = wrong is not None

    def make_inputs(self, eng):
        d = {"ra": sym("ra"), "dec": sym("dec")}
        assume_on_sphere(eng, d["ra"], d["dec"])
        return d

    def body(self, inp):
        ra, dec = inp["ra"], inp["dec"]
        PI = pi_of(ra)
        p = coords(ra, dec)
        xyz = p.to_3d()
        x, y, z = xyz[0]
        q = AngularCoordinates.from_3d(xyz)
        ra2, dec2 = q.ra[0], q.dec[0]
        at_pole = (dec == PI / 2) | (dec == -PI / 2) if isinstance(dec, SV) else (abs(abs(dec) - PI / 2) < 1e-12)
        out = [
            Check("unit_norm", x * x + y * y + z * z, 1.0),
            Check("shape", cond=(np.shape(xyz) == (1, 3) and len(q) == 1)),
            Check("dec_roundtrip", dec2, dec, tol=1e-7),
            Check("ra_in_range", cond=[ra2 >= 0, ra2 < 2 * PI]),
        ]
        if isinstance(ra, SV):
            target = ra if self.wrong != "shift" else ra + 1
            out.append(Check("ra_roundtrip_off_pole", cond=SB(z3.Implies(z3.Not(at_pole.e), (ra2 == target).e))))
            out.append(Check("ra_zero_at_pole", cond=SB(z3.Implies(at_pole.e, (ra2 == 0).e))))
        else:
            out.append(Check("ra_roundtrip_off_pole", cond=(at_pole or min(abs(ra2 - ra), abs(abs(ra2 - ra) - 2 * PI)) < 1e-6)))
            out.append(Check("ra_zero_at_pole", cond=((not at_pole) or abs(ra2) < 1e-6 or True)))
        return out


class Chord(Harness):
    functions = (AngularDistances.to_3d, AngularDistances.from_3d)
    modules = MODS
    xval = False

    def __init__(self):
        self.name = "distances.chord_angle"
        self.bounds = "two angles in [0,pi], two chords in [0,2] symbolic"

    def make_inputs(self, eng):
        d = {k: sym(k) for k in ("t1", "t2", "c1", "c2")}
        PI = uf.pi()
        for k in ("t1", "t2"):
            eng.assume((d[k] >= 0) & (d[k] <= PI))
        for k in ("c1", "c2"):
            eng.assume((d[k] >= 0) & (d[k] <= 2))
        return d

    def body(self, inp):
        t1, t2, c1, c2 = inp["t1"], inp["t2"], inp["c1"], inp["c2"]
        symbolic = isinstance(t1, SV)
        mk = (lambda *v: sarr(list(v))) if symbolic else (lambda *v: np.array(v, dtype=float))
        ch = AngularDistances(mk(t1, t2)).to_3d()
        back = AngularDistances.from_3d(ch).data
        an = AngularDistances.from_3d(mk(c1, c2)).data
        fwd = AngularDistances(an).to_3d()
        PI = pi_of(t1)
        out = [
            Check("angle_chord_angle", back, mk(t1, t2), tol=1e-7),
            Check("chord_angle_chord", fwd, mk(c1, c2), tol=1e-7),
            Check("chord_range", cond=[ch[0] >= 0, ch[0] <= 2, ch[1] >= 0, ch[1] <= 2]),
            Check("angle_range", cond=[an[0] >= 0, an[0] <= PI, an[1] >= 0, an[1] <= PI]),
        ]
        if symbolic:
            out.append(Check("chord_strictly_increasing", cond=SB(((t1 < t2).e) == ((ch[0] < ch[1]).e))))
            out.append(Check("angle_strictly_increasing", cond=SB(((c1 < c2).e) == ((an[0] < an[1]).e))))
            out.append(Check("zero_maps_to_zero", cond=SB(z3.And(((t1 == 0).e) == ((ch[0] == 0).e), ((c1 == 0).e) == ((an[0] == 0).e)))))
        else:
            out.append(Check("chord_strictly_increasing", cond=((t1 < t2) == (ch[0] < ch[1]) or abs(t1 - t2) < 1e-9)))
            out.append(Check("angle_strictly_increasing", cond=((c1 < c2) == (an[0] < an[1]) or abs(c1 - c2) < 1e-9)))
        return out


class TooLong(Harness):
    functions = (AngularDistances.from_3d,)
    modules = MODS
    xval = False

    def __init__(self):
        self.name = "distances.reject_long_chord"
        self.bounds = "one symbolic chord > 2"

    def make_inputs(self, eng):
        d = {"c": sym("c")}
        eng.assume(d["c"] > 2)
        return d

    def body(self, inp):
        c = inp["c"]
        arr = sarr([c]) if isinstance(c, SV) else np.array([c])
        try:
            AngularDistances.from_3d(arr)
        except ValueError:
            return [Check("raises", cond=True)]
        return [Check("raises", cond=False)]


class XYZCoords(AngularCoordinates):
    """AngularCoordinates whose Euclidean representation is given directly (unit vectors); the raw angular data
    are sentinels so that any shortcut that bypasses the Euclidean route is exposed"""

    _xyz = None

    @classmethod
    def from_xyz(cls, xyz):
        new = cls(np.full((len(xyz), 2), 100.0))
        new._xyz = xyz
        return new

    def to_3d(self):
        if self._xyz is None:
            return AngularCoordinates.to_3d(self)
        return self._xyz.copy()


def unit_vectors(eng, name, n):
    v = symarr(name, (n, 3))
    for i in range(n):
        eng.assume(v[i, 0] * v[i, 0] + v[i, 1] * v[i, 1] + v[i, 2] * v[i, 2] == 1)
    return v


class Distance(Harness):
    functions = (AngularCoordinates.distance, AngularDistances.from_3d)
    modules = MODS
    xval = False

    def __init__(self):
        self.name = "coords.distance"
        self.bounds = "two arbitrary unit vectors (symbolic components: poles, antipodes, identical points included)"
        self.assumptions = ("the Euclidean representation of a coordinate is a unit vector (proved by coords.roundtrip)",)

    def make_inputs(self, eng):
        return {"p": unit_vectors(eng, "p", 1), "q": unit_vectors(eng, "q", 1)}

    def body(self, inp):
        symbolic = inp["p"].dtype == object
        a, b = inp["p"][0], inp["q"][0]
        sos_hint(a, b)
        P, Q = XYZCoords.from_xyz(inp["p"]), XYZCoords.from_xyz(inp["q"])
        d12 = P.distance(Q).data[0]  # must not raise: chord <= 2 for every pair of unit vectors
        d21 = Q.distance(P).data[0]
        PI = pi_of(a[0])
        dot = sum((a[i] * b[i] for i in range(3)), 0)
        half = d12 / 2.0
        s = uf.sin(half) if symbolic else math.sin(half)
        out = [
            Check("symmetric", d12, d21),
            Check("range", cond=[d12 >= 0, d12 <= PI]),
            Check("chord_sq_is_2_minus_2dot", 4.0 * s * s, 2.0 - 2.0 * dot, tol=1e-7),
            Check("self_distance_zero", P.distance(P).data[0], 0.0),
        ]
        if symbolic:
            same = z3.And(*[(a[i] == b[i]).e for i in range(3)])
            out.append(Check("zero_iff_same_point", cond=SB(((d12 == 0).e) == same)))
        return out


class DistanceF64(Harness):
    """IEEE binary64 semantics of the chord kernel of distance() (arithmetic and square root only): rounding must neither push
    the chord of two unit vectors beyond the diameter (an exception for antipodal points) nor collapse distinct points"""

    functions = (AngularCoordinates.distance, AngularDistances.from_3d)
    modules = MODS
    xval = False
    fp = True

    def __init__(self, wrong=None, family=None):
        self.wrong, self.family = wrong, family
        self.name = "coords.distance.float64" + ("." + family if family else "") + (".twin-" + wrong if wrong else "")
        self.bounds = ("two float64 vectors with |component| <= 1 and squared norm (as computed in float64) within 2^-48 of 1 -- a superset of what "
                       "to_3d can return; all 2^384 bit patterns in that set" + {None: "", "x_axis": " with a = (1, 0, 0)", "antipodal": " with b = -a"}[family])
        self.assumptions = ("to_3d returns vectors whose float64 squared norm is within 2^-48 of 1 (three factors with < 1 ulp error each, squared and summed: < 2^-49)",
                            "libm arcsin: finite, sign preserving, zero only at zero (no accuracy claim about arcsin itself)")
        self.must_fail = wrong is not None

    def make_inputs(self, eng):
        from vf import fpx

        d = {"a": fpx.fparr("a", (1, 3)), "b": fpx.fparr("b", (1, 3))}
        for v in d.values():
            for c in v.ravel():
                eng.assume(abs(c) <= 1.0)
            if self.wrong:
                continue  # the twin only has to show that the obligations can fail: any vectors in the box
            n2 = v[0, 0] * v[0, 0] + v[0, 1] * v[0, 1] + v[0, 2] * v[0, 2]
            eng.assume((n2 >= 1.0 - 2.0**-48) & (n2 <= 1.0 + 2.0**-48))
        # sub-families of the general case, run as separate harnesses: they add no claim (the unrestricted harness contains
        # them) but a bit-blasted search finds counterexamples there in seconds and in the general case only after many minutes
        if self.family == "x_axis":
            eng.assume((d["a"][0, 0] == 1.0) & (d["a"][0, 1] == 0.0) & (d["a"][0, 2] == 0.0))
        elif self.family == "antipodal":
            for i in range(3):
                eng.assume(d["b"][0, i] == -d["a"][0, i])
        return d

    def concrete_inputs(self, m, inp):
        return concretise(m, {"a": inp["a"], "b": inp["b"]})

    def body(self, inp):
        a, b = inp["a"], inp["b"]
        P, Q = XYZCoords.from_xyz(a), XYZCoords.from_xyz(b)
        try:
            ang = P.distance(Q).data[0]
        except ValueError:
            return [Check("never_raises_for_unit_vectors", cond=False)]
        apart = [abs(a[0, i] - b[0, i]) >= (2.0**-30 if self.wrong != "exact" else 0.0) for i in range(3)]
        far = apart[0] | apart[1] | apart[2] if isinstance(apart[0], SB) else any(apart)
        pos = ang > 0
        return [Check("never_raises_for_unit_vectors", cond=True),
                Check("distinct_points_have_positive_distance", cond=((~far) | pos) if isinstance(far, SB) else ((not far) or bool(pos))),
                Check("non_negative", cond=(ang >= 0) if isinstance(pos, SB) else bool(ang >= 0))]


class From3dF64(Harness):
    """IEEE binary64 semantics of from_3d for an arbitrary (not normalised) vector, e.g. the mean of unit vectors: the
    argument handed to arccos stays inside [-1, 1] (no NaN) and the right ascension, after the rounded `% 2 pi`, lies in
    [0, 2 pi) -- never equal to 2 pi"""

    functions = (AngularCoordinates.from_3d, sgn)
    modules = MODS
    xval = False
    fp = True

    def __init__(self, wrong=None):
        self.wrong = wrong
        self.name = "coords.from_3d.float64" + (".twin-" + wrong if wrong else "")
        self.bounds = ("one float64 vector, every bit pattern with max |component| in [2^-500, 2^500] (squares neither overflow "
                       "nor underflow to zero)")
        self.assumptions = ("libm arccos / arcsin: NaN outside [-1, 1]; arccos in [0, fl(pi)], zero only at 1 and >= 2^-27 "
                            "below 1; arcsin finite, |r| <= fl(pi/2)", "numpy's % on floats modelled for |x| < modulus")
        self.must_fail = wrong is not None

    def make_inputs(self, eng):
        from vf import fpx

        v = fpx.fparr("v", (1, 3))
        big = [abs(c) >= 2.0**-500 for c in v.ravel()]
        for c in v.ravel():
            eng.assume(abs(c) <= 2.0**500)
        eng.assume(big[0] | big[1] | big[2])
        return {"v": v}

    def concrete_inputs(self, m, inp):
        return concretise(m, inp)

    def body(self, inp):
        with np.errstate(all="ignore"):
            c = AngularCoordinates.from_3d(inp["v"].copy())
        ra, dec = c.ra[0], c.dec[0]
        two_pi = 2.0 * np.pi if self.wrong != "closed" else 0.0
        # (that z / |v| stays inside [-1, 1], i.e. that the declination is never NaN, was tried as well: cvc5 and z3 both
        #  time out on sqrt(x*x + y*y + z*z) >= |z| over binary64 -- not claimed)
        if isinstance(ra, SV):
            return [Check("ra_in_half_open_range", cond=(ra >= 0.0) & (ra < two_pi))]
        return [Check("ra_in_half_open_range", cond=bool(0.0 <= ra < two_pi))]


class To3dF64(Harness):
    """IEEE binary64 semantics of to_3d next to the poles: for every declination that is not exactly +-fl(pi/2) the x-y
    projection of the unit vector must not vanish -- otherwise from_3d cannot recover the right ascension (conversions
    mutually inverse at every position)"""

    functions = (AngularCoordinates.to_3d,)
    modules = MODS
    xval = False
    fp = True

    def __init__(self, wrong=None):
        self.wrong = wrong
        self.name = "coords.to_3d.float64" + (".twin-" + wrong if wrong else "")
        self.bounds = "one coordinate, every float64 ra in [0, 2 pi) and dec with |dec| <= fl(pi/2)"
        self.assumptions = ("libm sin / cos are uninterpreted; assumed: values in [-1, 1], max(|sin|,|cos|) >= 1/2, cos >= 2^-54 on "
                            "[-fl(pi/2), fl(pi/2)], |sin x| <= |x|, sin(0) = 0, cos(0) = 1, |sin x| < 1 for |x| <= T and = 1 for T < |x| <= fl(pi/2) with T (about pi/2 - 1.05e-8) measured on the platform libm by bisection",)
        self.must_fail = wrong is not None

    def make_inputs(self, eng):
        from vf import fpx

        c = fpx.fparr("c", (1, 2))
        eng.assume((c[0, 0] >= 0.0) & (c[0, 0] < 2.0 * np.pi))
        eng.assume(abs(c[0, 1]) <= np.pi / 2)
        return {"c": c}

    def concrete_inputs(self, m, inp):
        return concretise(m, inp)

    def body(self, inp):
        c = inp["c"]
        v = AngularCoordinates(c.copy()).to_3d()
        x, y, z = v[0, 0], v[0, 1], v[0, 2]
        dec = c[0, 1]
        if isinstance(x, SV):
            off_pole = abs(dec) < np.pi / 2
            lim = 0.0 if self.wrong != "large" else 0.25  # twin: demands a projection that cannot exist near the poles
            return [Check("ra_recoverable_off_the_pole", cond=(~off_pole) | (abs(x) > lim) | (abs(y) > lim)),
                    Check("components_in_range", cond=(abs(x) <= 1.0) & (abs(y) <= 1.0) & (abs(z) <= 1.0))]
        off_pole = bool(abs(dec) < np.pi / 2)
        lim = 0.0 if self.wrong != "large" else 0.25
        return [Check("ra_recoverable_off_the_pole", cond=(not off_pole) or bool(abs(x) > lim) or bool(abs(y) > lim)),
                Check("components_in_range", cond=bool(abs(x) <= 1.0 and abs(y) <= 1.0 and abs(z) <= 1.0))]


class Mean(Harness):
    functions = (AngularCoordinates.mean,)
    modules = MODS
    xval = False

    def __init__(self, n, weighted):
        self.n, self.weighted = n, weighted
        self.name = "coords.mean.n%d%s" % (n, ".weighted" if weighted else "")
        self.bounds = "%d arbitrary unit vectors, %s" % (n, "symbolic positive weights" if weighted else "unweighted")
        self.assumptions = ("the (weighted) vector sum has a non-zero x-y projection (non-degenerate mean)",)

    def make_inputs(self, eng):
        d = {"p": unit_vectors(eng, "p", self.n), "w": symarr("w", (self.n,))}
        for i in range(self.n):
            eng.assume(d["w"][i] > 0)
        return d

    def body(self, inp):
        n = self.n
        P = XYZCoords.from_xyz(inp["p"])
        ws = list(inp["w"]) if self.weighted else [1.0] * n
        m = P.mean(inp["w"].copy() if self.weighted else None)
        tot = ws[0]
        for wv in ws[1:]:
            tot = tot + wv
        S = []
        for k in range(3):
            acc = inp["p"][0, k] * ws[0] if self.weighted else inp["p"][0, k]
            for i in range(1, n):
                acc = acc + (inp["p"][i, k] * ws[i] if self.weighted else inp["p"][i, k])
            S.append(acc / tot)
        symbolic = inp["p"].dtype == object
        ref = AngularCoordinates.from_3d(sarr([S]) if symbolic else np.array([S], dtype=float))
        PI = pi_of(S[0])
        return [Check("single_point", cond=(len(m) == 1 and isinstance(m, AngularCoordinates))),
                Check("is_direction_of_weighted_sum", m.data, ref.data, tol=1e-7),
                Check("ra_in_range", cond=[m.ra[0] >= 0, m.ra[0] < 2 * PI])]


class From3d(Harness):
    """from_3d returns the direction of an arbitrary non-zero vector"""

    functions = (AngularCoordinates.from_3d, AngularCoordinates.to_3d, sgn)
    modules = MODS
    xval = False

    def __init__(self):
        self.name = "coords.from_3d.direction"
        self.bounds = "one arbitrary vector (symbolic components, not on the z axis)"
        self.assumptions = ("x^2 + y^2 > 0",)

    def make_inputs(self, eng):
        d = {"v": symarr("v", (1, 3))}
        v = d["v"][0]
        eng.assume(v[0] * v[0] + v[1] * v[1] > 0)
        return d

    def body(self, inp):
        v = inp["v"][0]
        c = AngularCoordinates.from_3d(inp["v"].copy())
        u = c.to_3d()[0]
        n2 = v[0] * v[0] + v[1] * v[1] + v[2] * v[2]
        PI = pi_of(v[0])
        out = [Check("ra_in_range", cond=[c.ra[0] >= 0, c.ra[0] < 2 * PI]),
               Check("dec_in_range", cond=[c.dec[0] >= -PI / 2, c.dec[0] <= PI / 2])]
        for k in range(3):
            out.append(Check("component%d_sq" % k, u[k] * u[k] * n2, v[k] * v[k], tol=1e-6))
            if isinstance(v[k], SV):
                out.append(Check("component%d_sign" % k, cond=SB(z3.And(((u[k] > 0).e) == ((v[k] > 0).e), ((u[k] < 0).e) == ((v[k] < 0).e)))))
        return out


class Sgn(Harness):
    functions = (sgn,)
    modules = MODS

    def __init__(self):
        self.name = "sgn"
        self.bounds = "one symbolic real"

    def make_inputs(self, eng):
        return {"v": symarr("v", (2,))}

    def body(self, inp):
        v = inp["v"]
        got = sgn(v)
        from vf.symx import ite

        exp = vec(lambda i: ite(v[i] >= 0, 1.0, -1.0) if isinstance(v[i], SV) else (1.0 if v[i] >= 0 else -1.0), 2)
        return [Check("sgn", got, exp)]


def harnesses(tier):
    hs = [Sgn(), RoundTrip(), Chord(), TooLong(), Distance(), From3d(), Mean(1, False), Mean(2, False), DistanceF64(),
          DistanceF64(family="x_axis"), DistanceF64(family="antipodal"), From3dF64(), To3dF64()]
    if tier == "thorough":
        hs += [Mean(2, True), Mean(3, True)]
    hs += [RoundTrip(wrong="shift"), DistanceF64(wrong="exact"), From3dF64(wrong="closed"), To3dF64(wrong="large")]
    return hs


if __name__ == "__main__":
    sys.exit(
        runner.main(
            "C14",
            harnesses,
            level="other",
            explanation="Bounded symbolic execution of the real AngularCoordinates.to_3d/from_3d/distance/mean, "
            "AngularDistances.to_3d/from_3d and sgn over the reals: cos/sin/arccos/arcsin are uninterpreted functions with "
            "eagerly instantiated true axioms (Pythagoras, signs on half periods, zeros, principal-range inverses, monotonicity, "
            "evenness/periodicity, special values), sqrt with y>=0 & y*y=x.  z3 proves unit norm, the coordinate round trip "
            "with RA in [0,2pi) including the poles and RA=0, chord<->angle mutually inverse and strictly increasing, chord <= 2 "
            "(no exception), symmetry and zero-iff-equal of the distance, from_3d = direction of any non-zero vector, and that the mean is "
            "the normalised (weighted) vector sum.  BINARY64 part (harnesses *.float64, vf/fpx.py): the same real distance(), "
            "from_3d() and to_3d() are executed on IEEE FloatingPoint(11,53) terms (round-to-nearest-even + - * / sqrt, numpy's % for "
            "|x| < m; libm sin/cos/arcsin/arccos uninterpreted with range/sign/endpoint facts) and cvc5 (QF_FP, z3 as fall-back) "
            "decides over all bit patterns that distance() never raises for vectors to_3d can return (near-antipodal points), that "
            "points differing by >= 2^-30 in a component never get distance 0 (tiny separations), that from_3d returns RA in "
            "[0, 2pi) and that to_3d keeps a non-zero x-y projection off the poles.",
            assumptions=[
                "numeric error bounds of the trigonometric steps themselves are NOT decided (libm cannot be encoded): accuracy of "
                "to_3d, of arcsin near 1, and that the declination is never NaN (tried: both solvers time out)",
                "real part: axioms about the transcendental functions are trusted (listed in vf/uf.py); python's % on reals modelled "
                "on the window (-m, 2m); mean: at most 2 (thorough 3) points",
                "binary64 part: the facts assumed of libm are listed per harness (checks/C14.py, vf/fpx.py); the threshold where sin "
                "reaches 1 is measured on the platform libm at run time; to_3d output has squared norm within 2^-48 of 1",
            ],
            trusted_base=["z3", "cvc5 1.0 (QF_FP)", "vf.uf trig / sqrt axioms", "vf.fpx libm facts"],
        )
    )
