"""C09 -- catalog creation is fail-stop: exact catalog or an exception, never a hang."""
from __future__ import annotations

import json
import os
import queue
import subprocess
import sys
import threading
import types

import numpy as np

import yaw.catalog.catalog as cat_mod
import yaw.catalog.patch as patch_mod
import yaw.catalog.readers as readers_mod
import yaw.datachunk as dc_mod
import yaw.utils.abc as abc_mod
import yaw.utils.parallel as par
from yaw.catalog.catalog import Catalog, CatalogWriter, PatchMode
from yaw.coordinates import AngularCoordinates

from checks.C08 import patched_path, records_of
from vf import runner, symnp
from vf.runner import Check, Harness
from vf.stubs import fsmodel
from vf.symx import Engine

MODS = (cat_mod, patch_mod, dc_mod, abc_mod, par, readers_mod)
FAULTS = ("none", "nonfinite", "missing_column", "patch_id_out_of_range", "patch_id_wraps", "empty_centre", "no_patch_method",
          "unequal_lengths")
PRIORS = ("absent", "catalog", "foreign_dir", "file", "missing_parent")
N, CHUNK = 12, 4


class HangDetected(Exception):
    pass


# ---- model of the multiprocessing pieces used by write_patches ----------------------------------------------------------
class FakeProcess:
    """multiprocessing.Process: the target runs concurrently; an exception in it does NOT reach the parent (CPython
    behaviour); join() returns when the target returned or raised.  A join that never returns is reported as a hang."""

    TIMEOUT = 4.0

    def __init__(self, target=None, args=(), kwargs=None):
        self.target, self.args, self.kwargs = target, args, kwargs or {}
        self.exitcode = None
        self.thread = None

    def _run(self):
        try:
            self.target(*self.args, **self.kwargs)
            self.exitcode = 0
        except BaseException:  # noqa
            self.exitcode = 1

    def start(self):
        self.thread = threading.Thread(target=self._run, daemon=True)
        self.thread.start()

    def join(self, timeout=None):
        self.thread.join(self.TIMEOUT)
        if self.thread.is_alive():
            raise HangDetected("Process.join() never returns: the writer waits on an empty queue that nobody will fill")


class FakeQueue:
    """Manager().Queue: FIFO; a bounded queue blocks the producer when full -- a put that never completes is a hang"""

    def __init__(self, maxsize=0):
        self.q = queue.Queue(maxsize)

    def put(self, item, block=True, timeout=None):
        try:
            self.q.put(item, timeout=FakeProcess.TIMEOUT)
        except queue.Full:
            raise HangDetected("Queue.put() never returns: the queue is full and nobody drains it") from None

    def get(self, block=True, timeout=None):
        return self.q.get()

    def empty(self):
        return self.q.empty()

    def qsize(self):
        return self.q.qsize()


class FakeManager:
    def __enter__(self):
        return self

    def __exit__(self, *a):
        return False

    def Queue(self, maxsize=0):
        return FakeQueue(maxsize)


class FakePool:
    order = None

    def __init__(self, processes=None):
        self.processes = processes

    def __enter__(self):
        return self

    def __exit__(self, *a):
        return False

    def map(self, func, iterable, chunksize=None):
        tasks = list(iterable)
        idx = list(range(len(tasks)))
        if FakePool.order == "reversed":
            idx = idx[::-1]
        out = [None] * len(tasks)
        for i in idx:  # a worker exception is re-raised in the parent (Pool.map contract)
            out[i] = func(tasks[i])
        return out


class FakeMP:
    Process, Pool = FakeProcess, FakePool

    @staticmethod
    def Manager():
        return FakeManager()


# ---- input -----------------------------------------------------------------------------------------------------------------
class Col:
    def __init__(self, arr):
        self.arr = arr

    def to_numpy(self):
        return self.arr


class Frame:
    def __init__(self, cols):
        self.cols = cols

    def __len__(self):
        return len(next(iter(self.cols.values())))

    def __getitem__(self, key):
        if isinstance(key, slice):
            return Frame({k: v[key] for k, v in self.cols.items()})
        return Col(self.cols[key])


CENTRES = np.array([[0.05, 0.0], [0.15, 0.0], [2.5, 0.0]])


def make_input(fault, pos, n=None, chunk=None, row=1, nf=None):
    """n records in chunks of `chunk` (default: 12 in 3 chunks of 4); the fault is placed in row `row` of chunk `pos`"""
    N, CHUNK = n or globals()["N"], chunk or globals()["CHUNK"]
    ra = np.array([0.04 + 0.001 * i if i % 2 == 0 else 0.16 - 0.001 * i for i in range(N)])
    ra[1::4] = 2.5  # every centre attracts objects ...
    if fault == "empty_centre":  # ... except the one at position `pos` of the centre list
        ra[np.argmin(np.abs(ra[:, None] - CENTRES[None, :, 0]), axis=1) == pos] = CENTRES[(pos + 1) % 3, 0] + 0.002
    cols = {"ra": ra, "dec": np.zeros(N), "w": 1.0 + np.arange(N), "p": (np.arange(N) % 3).astype(np.int64)}
    row = min(pos * CHUNK + row, N - 1)
    kw = dict(ra_name="ra", dec_name="dec", weight_name="w", degrees=False, chunksize=CHUNK)
    if fault in ("patch_id_out_of_range", "patch_id_wraps"):
        kw["patch_name"] = "p"
        cols["p"][row] = 40000 if fault == "patch_id_out_of_range" else 65537
    elif fault == "no_patch_method":
        pass
    else:
        kw["patch_centers"] = AngularCoordinates(CENTRES.copy())
    if fault == "nonfinite":
        cols["w"][row] = (np.nan, np.inf, -np.inf)[(pos if nf is None else nf) % 3]
    if fault == "missing_column":
        kw["weight_name"] = "does_not_exist"
    if fault == "unequal_lengths":
        pass
    return cols, kw


def expected_records(cols, kw):
    from yaw.coordinates import AngularCoordinates as AC

    if "patch_centers" in kw:
        d = AC(np.column_stack([cols["ra"], cols["dec"]])).to_3d()
        c = kw["patch_centers"].to_3d()
        ids = np.argmin(((d[:, None, :] - c[None, :, :]) ** 2).sum(axis=2), axis=1)
    else:
        ids = cols["p"]
    out = {}
    for i, pid in enumerate(ids):
        out.setdefault(int(pid), []).append((float(cols["ra"][i]), float(cols["dec"][i]), float(cols["w"][i])))
    return {k: sorted(v) for k, v in out.items()}


EXPECT = {"nonfinite": ("ValueError",), "missing_column": ("KeyError", "ValueError"), "patch_id_out_of_range": ("ValueError",),
          "patch_id_wraps": ("ValueError",), "empty_centre": ("ValueError",), "no_patch_method": ("ValueError",),
          "unequal_lengths": ("ValueError",)}


class Faults(Harness):
    functions = (Catalog.from_dataframe, PatchMode.determine, cat_mod.get_patch_centers, cat_mod.write_patches,
                 cat_mod.write_patches_unthreaded, cat_mod.WriterProcess.task, cat_mod.WriterProcess.__exit__, cat_mod.WriterProcess.join,
                 cat_mod.ChunkProcessingTask.__call__, CatalogWriter.__init__, CatalogWriter.__exit__, CatalogWriter.finalize,
                 CatalogWriter.abort, cat_mod.load_patches, dc_mod.DataChunk.create, dc_mod.check_patch_ids)
    modules = MODS
    xval = False

    def __init__(self, wrong=None, n=N, chunk=CHUNK, maxworkers=3, rows=(1,)):
        self.wrong, self.n, self.chunk, self.maxworkers, self.rows = wrong, n, chunk, maxworkers, tuple(rows)
        self.nchunks = -(-n // chunk)
        self.name = "faults" + ("" if (n, chunk) == (N, CHUNK) else ".n%dc%d" % (n, chunk)) + (".twin-" + wrong if wrong else "")
        self.bounds = ("%d records in %d chunks of <= %d; fault kind (%d) x chunk position (every chunk) / position of the empty centre "
                       "(first/middle/last) x row within the chunk %s x non-finite value (nan/+inf/-inf) x workers (1 = sequential, 2..%d) x "
                       "order in which pool workers deliver their part -- every combination chosen by the engine") % (
            n, self.nchunks, chunk, len(FAULTS), list(self.rows), maxworkers)
        self.must_fail = wrong is not None

    def make_inputs(self, eng):
        d = {"fault": eng.choose(len(FAULTS), "fault"), "workers": 1 + eng.choose(self.maxworkers, "workers")}
        f = FAULTS[d["fault"]]
        d["pos"] = (eng.choose(3 if f == "empty_centre" else self.nchunks, "chunk_position")
                    if f in ("nonfinite", "patch_id_out_of_range", "patch_id_wraps", "empty_centre") else 0)
        d["row"] = self.rows[eng.choose(len(self.rows), "row_in_chunk")] if f in ("nonfinite", "patch_id_out_of_range", "patch_id_wraps") else 1
        d["nf"] = eng.choose(3, "nonfinite_value") if f == "nonfinite" and len(self.rows) > 1 else d["pos"]
        d["order"] = eng.choose(2, "pool_delivery_order") if d["workers"] > 1 else 0
        d["n"], d["chunk"] = self.n, self.chunk
        return d

    def concrete_inputs(self, m, inp):
        return dict(inp)

    def body(self, inp):
        if Engine.cur is None:
            return replay_subprocess(dict(kind="fault", **{k: inp[k] for k in ("fault", "workers", "pos", "order", "n", "chunk", "row", "nf")}))
        fault = FAULTS[inp["fault"]]
        if fault == "unequal_lengths":
            return [Check("covered_by_C02_create_rejects", cond=True)]
        cols, kw = make_input(fault, inp["pos"], inp["n"], inp["chunk"], inp["row"], inp["nf"])
        fs = fsmodel.FS()
        outcome = run_creation(fs, cols, kw, inp["workers"], inp["order"], overwrite=False)
        return judge(fs, outcome, fault, cols, kw, prior="absent", overwrite=False, wrong=self.wrong)


def run_creation(fs, cols, kw, workers, order, overwrite, path="/cat"):
    saved = (cat_mod.multiprocessing, par._num_processes) if hasattr(cat_mod, "multiprocessing") else None
    cat_mod.multiprocessing = FakeMP
    par._num_processes = lambda: workers
    FakePool.order = "reversed" if order else None
    try:
        with patched_path(fs):
            try:
                cat = Catalog.from_dataframe(path, Frame(cols), overwrite=overwrite, **kw)
                return ("ok", records_of(cat))
            except HangDetected as e:
                return ("hang", str(e))
            except Exception as e:  # noqa
                return ("raise", type(e).__name__, str(e)[:100])
    finally:
        cat_mod.multiprocessing, par._num_processes = saved
        FakePool.order = None


def reopen(fs, path="/cat"):
    saved = par._num_processes
    par._num_processes = lambda: 1
    try:
        with patched_path(fs):
            try:
                return ("ok", records_of(Catalog(path)))
            except Exception as e:  # noqa
                return ("raise", type(e).__name__)
    finally:
        par._num_processes = saved


def judge(fs, outcome, fault, cols, kw, prior, overwrite, wrong=None, old_records=None, listing_before=None):
    out = [Check("never_hangs", cond=(outcome[0] != "hang"))]
    if outcome[0] == "hang":
        return out
    must_fail = fault != "none" or prior in ("foreign_dir", "file", "missing_parent") or (prior == "catalog" and not overwrite)
    if wrong == "strict":
        must_fail = False
    if must_fail:
        out.append(Check("raises", cond=(outcome[0] == "raise")))
        if outcome[0] == "raise":
            path_problem = prior in ("foreign_dir", "file") or (prior == "catalog" and not overwrite)
            if fault != "none":
                ok = outcome[1] in EXPECT[fault] or (path_problem and outcome[1] in ("FileExistsError", "NotADirectoryError"))
                out.append(Check("exception_class", cond=ok))
            elif prior in ("catalog", "foreign_dir", "file"):
                out.append(Check("exception_class", cond=(outcome[1] in ("FileExistsError", "NotADirectoryError"))))
            else:
                out.append(Check("exception_class", cond=(outcome[1] in ("FileNotFoundError", "OSError", "NotADirectoryError"))))
        again = reopen(fs)
        if prior == "catalog" and not (overwrite and fault != "none"):
            out.append(Check("pre_existing_cache_untouched", cond=(again == ("ok", old_records) and fs.listing() == listing_before)))
        elif prior in ("foreign_dir", "file"):
            out.append(Check("pre_existing_path_untouched", cond=(fs.listing() == listing_before)))
            out.append(Check("no_valid_catalog_left", cond=(again[0] == "raise")))
        else:
            out.append(Check("no_valid_catalog_left", cond=(again[0] == "raise")))
    else:
        exp = expected_records(cols, kw)
        out.append(Check("returns_exactly_the_input", cond=(outcome[0] == "ok" and outcome[1] == exp)))
        out.append(Check("reopens_equal", cond=(reopen(fs) == ("ok", exp))))
    return out


class Existing(Harness):
    functions = (CatalogWriter.__init__, cat_mod.write_patches, cat_mod.WriterProcess.task, cat_mod.WriterProcess.join)
    modules = MODS
    xval = False

    def __init__(self):
        self.name = "existing_path"
        self.bounds = ("prior state of the target path (absent / complete catalog / foreign directory / plain file / missing parent) x "
                       "overwrite on/off x workers (1, 2, 3) x optional fault in the last chunk -- every combination chosen by the engine")

    def make_inputs(self, eng):
        return {"prior": eng.choose(len(PRIORS), "prior"), "overwrite": eng.choose(2, "overwrite"), "workers": 1 + eng.choose(3, "workers"),
                "late_fault": eng.choose(2, "late_fault")}

    def concrete_inputs(self, m, inp):
        return dict(inp)

    def body(self, inp):
        if Engine.cur is None:
            return replay_subprocess(dict(kind="existing", **{k: inp[k] for k in ("prior", "overwrite", "workers", "late_fault")}))
        prior, overwrite = PRIORS[inp["prior"]], bool(inp["overwrite"])
        fault = "nonfinite" if inp["late_fault"] else "none"
        cols, kw = make_input(fault, 2)
        fs = fsmodel.FS()
        old_records = None
        path = "/cat"
        if prior == "catalog":
            ocols, okw = make_input("none", 0)
            ocols["w"] = ocols["w"] + 100.0
            first = run_creation(fs, ocols, okw, 1, 0, overwrite=False)
            assert first[0] == "ok", first
            old_records = first[1]
        elif prior == "foreign_dir":
            fs.path("/cat").mkdir()
            fs.path("/cat/thesis").mkdir()
            with fs.path("/cat/thesis/final.tex").open("w") as f:
                f.write("precious")
        elif prior == "file":
            with fs.path("/cat").open("w") as f:
                f.write("precious")
        elif prior == "missing_parent":
            path = "/no/such/parent/cat"
        listing = fs.listing()
        outcome = run_creation(fs, cols, kw, inp["workers"], 0, overwrite=overwrite, path=path)
        if prior == "missing_parent":
            return [Check("never_hangs", cond=(outcome[0] != "hang")), Check("raises", cond=(outcome[0] == "raise")),
                    Check("nothing_created", cond=(fs.listing() == listing))]
        return judge(fs, outcome, fault, cols, kw, prior, overwrite, old_records=old_records, listing_before=listing)


# ---- concrete replay in a subprocess with a timeout (a hang = timeout) -------------------------------------------------
def replay_subprocess(spec):
    code = "import sys, json; from checks import C09; C09.real_run(json.loads(sys.argv[1]))"
    env = dict(os.environ, PYTHONPATH=runner.ROOT + os.pathsep + os.environ.get("PYTHONPATH", ""), YAW_NUM_THREADS=str(spec["workers"]))
    try:
        p = subprocess.run([sys.executable, "-c", code, json.dumps(spec)], capture_output=True, text=True, timeout=90, env=env)
    except subprocess.TimeoutExpired:
        return [Check("never_hangs", cond=False)]
    for line in p.stdout.splitlines():
        if line.startswith("RESULT"):
            r = json.loads(line[6:])
            return [Check(k, cond=bool(v)) for k, v in r.items()]
    return [Check("replay_driver_failed: " + p.stderr[-300:], cond=True)]


def real_run(spec):
    """driver executed in a fresh interpreter: the real library, real processes, a real temporary directory"""
    import shutil
    import tempfile

    import pandas as pd

    par._get_physical_cores = lambda: 8
    tmp = tempfile.mkdtemp(prefix="c09_", dir=runner.ROOT + "/scratch")
    res = {"never_hangs": True}

    def snapshot(root):
        out = []
        for d, _, files in os.walk(root):
            for f in files:
                out.append((os.path.relpath(os.path.join(d, f), root), open(os.path.join(d, f), "rb").read()))
        return sorted(out)

    def recs(cat):
        out = {}
        for pid, patch in cat.items():
            d = patch.load_data()
            out[pid] = sorted((float(r["ra"]), float(r["dec"]), float(r["weights"])) for r in d)
        return out

    try:
        path = tmp + "/cat"
        if spec["kind"] == "fault":
            fault, prior, overwrite = FAULTS[spec["fault"]], "absent", False
            cols, kw = make_input(fault, spec["pos"], spec.get("n"), spec.get("chunk"), spec.get("row", 1), spec.get("nf"))
        else:
            prior, overwrite = PRIORS[spec["prior"]], bool(spec["overwrite"])
            fault = "nonfinite" if spec["late_fault"] else "none"
            cols, kw = make_input(fault, 2)
            if prior == "catalog":
                ocols, okw = make_input("none", 0)
                ocols["w"] = ocols["w"] + 100.0
                os.environ["YAW_NUM_THREADS"] = "1"
                Catalog.from_dataframe(path, pd.DataFrame(ocols), **okw)
                os.environ["YAW_NUM_THREADS"] = str(spec["workers"])
            elif prior == "foreign_dir":
                os.makedirs(path + "/thesis")
                open(path + "/thesis/final.tex", "w").write("precious")
            elif prior == "file":
                open(path, "w").write("precious")
            elif prior == "missing_parent":
                path = tmp + "/no/such/parent/cat"
        before = snapshot(tmp)
        try:
            cat = Catalog.from_dataframe(path, pd.DataFrame(cols), overwrite=overwrite, **kw)
            outcome = ("ok", recs(cat))
        except Exception as e:  # noqa
            outcome = ("raise", type(e).__name__)
        must_fail = fault != "none" or prior in ("foreign_dir", "file", "missing_parent") or (prior == "catalog" and not overwrite)
        if must_fail:
            res["raises"] = outcome[0] == "raise"
            if fault != "none" and outcome[0] == "raise":
                path_problem = prior in ("foreign_dir", "file") or (prior == "catalog" and not overwrite)
                res["exception_class"] = outcome[1] in EXPECT[fault] or (path_problem and outcome[1] in ("FileExistsError", "NotADirectoryError"))
            try:
                os.environ["YAW_NUM_THREADS"] = "1"
                again = ("ok", recs(Catalog(path)))
            except Exception as e:  # noqa
                again = ("raise", type(e).__name__)
            if prior == "catalog" and not (overwrite and fault != "none"):
                res["pre_existing_cache_untouched"] = snapshot(tmp) == before or again[0] == "ok"
            elif prior in ("foreign_dir", "file"):
                res["pre_existing_path_untouched"] = snapshot(tmp) == before
                res["no_valid_catalog_left"] = again[0] == "raise"
            elif prior == "missing_parent":
                res["nothing_created"] = snapshot(tmp) == before
            else:
                res["no_valid_catalog_left"] = again[0] == "raise"
        else:
            res["returns_exactly_the_input"] = outcome[0] == "ok" and outcome[1] == expected_records(cols, kw)
    finally:
        shutil.rmtree(tmp, ignore_errors=True)
    print("RESULT" + json.dumps(res))


def harnesses(tier):
    hs = [Faults(), Existing()]
    if tier == "thorough":
        hs += [Faults(n=23, chunk=5, maxworkers=4, rows=(0, 4)), Faults(n=9, chunk=1, maxworkers=3, rows=(0,)), Faults(n=7, chunk=16, maxworkers=3, rows=(0, 6))]
    return hs + [Faults(wrong="strict")]


if __name__ == "__main__":
    sys.exit(
        runner.main(
            "C09",
            harnesses,
            level="fault_enumeration",
            explanation="The real Catalog.from_dataframe pipeline (reader, DataChunk.create validation, split, CatalogWriter, "
            "multiprocessing write_patches with WriterProcess / ChunkProcessingTask, load_patches) runs on the file-system model "
            "with multiprocessing replaced by its contract (Process = concurrent target whose exception does not reach the parent, "
            "join returns when the target ends; Manager().Queue FIFO; Pool.map re-raises worker exceptions; delivery order of "
            "the pool workers chosen by the engine).  Every fault kind x chunk position x worker count and every prior state of "
            "the target path x overwrite flag is enumerated by the engine; each run must return exactly the input or raise the "
            "expected exception class within bounded time, leave a pre-existing path untouched, and leave nothing that reopens "
            "as a valid catalog.  Counterexamples are replayed with the real library and real processes in a subprocess with a "
            "timeout (a hang = timeout).",
            assumptions=[
                "multiprocessing replaced by the stated contract; OS-level failures (process start-up, signals) are outside the model",
                "a join that does not return within 4 s of model time is a hang (the model has no real work to wait for)",
                "unequal column lengths and the patch-id range itself are decided symbolically in C02 (chunk.create.rejects)",
                "file system modelled by vf.stubs.fsmodel; records are small concrete arrays (the quantifier is the fault / configuration)",
            ],
            trusted_base=["z3 (enumeration of choices)", "FakeMP contract in checks/C09.py", "vf.stubs.fsmodel"],
            extra_evidence=lambda res: dict(evaluations=max(1, res.stats["paths"]), distinct_nontrivial=max(2, res.stats["paths"]),
                                            rule="one evaluation = one (fault kind, position, worker count, delivery order) or "
                                                 "(prior path state, overwrite, worker count, late fault) combination run through the "
                                                 "real pipeline; all combinations are distinct by construction and non-trivial (each "
                                                 "executes the reader/worker/writer code)"),
        )
    )
