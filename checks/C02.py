"""C02 -- catalog creation stores every input record exactly once, unchanged."""
from __future__ import annotations

import itertools
import os
import sys
import types

import numpy as np
import z3

import yaw.catalog.catalog as cat_mod
import yaw.catalog.patch as patch_mod
import yaw.coordinates
import yaw.datachunk as dc_mod
import yaw.utils.abc as abc_mod
import yaw.utils.misc as misc_mod
import yaw.utils.parallel
from yaw.catalog.catalog import Catalog, CatalogWriter, assign_patch_centers, load_patches, split_into_patches
from yaw.catalog.patch import Patch, PatchWriter, read_patch_data
from yaw.datachunk import ATTR_ORDER, DataChunk, DataChunkInfo, check_patch_ids, get_array_dtype
from yaw.utils.misc import common_len_assert, groupby

from checks.C08 import patched_path
from checks.C14 import XYZCoords
from checks.common import vec, wrap
from vf import runner, symnp, uf
from vf.runner import Check, Harness
from vf.stubs import fsmodel
from vf.stubs import vq as vq_stub
from vf.symx import SB, SV, Engine, concretise, sarr, sym, symarr

HARNESS = os.path.join(runner.ROOT, "harness", "ch_readers.py")


def same_term(a, b):
    r = a == b
    if isinstance(r, SB):
        return bool(z3.is_true(z3.simplify(r.e)))
    return bool(r)


class Create(Harness):
    functions = (DataChunk.create, get_array_dtype, check_patch_ids, common_len_assert, DataChunk.pop, DataChunk.getattr,
                 DataChunk.hasattr, DataChunk.get_coords)
    modules = (dc_mod, misc_mod, yaw.coordinates)
    xval = False

    def __init__(self, n, wrong=None):
        self.n, self.wrong = n, wrong
        self.name = "chunk.create.n%d" % n + (".twin-" + wrong if wrong else "")
        self.bounds = ("%d records; ra, dec, weights, redshifts symbolic; which optional columns exist (8 combinations) and "
                       "degrees on/off chosen by the engine; patch ids from a set of boundary values") % n
        self.must_fail = wrong is not None

    IDS = (0, 1, 32767, 40, 7)

    def make_inputs(self, eng):
        d = {k: symarr(k, (self.n,)) for k in ("ra", "dec", "w", "z")}
        d["opt"] = eng.choose(8, "optional_columns")
        d["degrees"] = eng.choose(2, "degrees")
        return d

    def concrete_inputs(self, m, inp):
        out = concretise(m, {k: inp[k] for k in ("ra", "dec", "w", "z")})
        out["opt"], out["degrees"] = inp["opt"], inp["degrees"]
        return out

    def body(self, inp):
        n = self.n
        symbolic = inp["ra"].dtype == object
        has_w, has_z, has_p = bool(inp["opt"] & 1), bool(inp["opt"] & 2), bool(inp["opt"] & 4)
        ids = np.array(self.IDS[:n])
        info, chunk = DataChunk.create(inp["ra"].copy(), inp["dec"].copy(), weights=inp["w"].copy() if has_w else None,
                                       redshifts=inp["z"].copy() if has_z else None, patch_ids=ids if has_p else None,
                                       degrees=bool(inp["degrees"]))
        names = tuple(a for a, present in zip(ATTR_ORDER, (True, True, has_w, has_z, has_p)) if present)
        pi = uf.pi() if symbolic else np.pi
        f = (pi / 180) if inp["degrees"] else 1
        if self.wrong == "nodeg":
            f = 1
        out = [Check("field_order", cond=(chunk.dtype.names == names)),
               Check("info", cond=(info.has_weights == has_w and info.has_redshifts == has_z and info.has_patch_ids == has_p)),
               Check("length", cond=(len(chunk) == n)),
               Check("ra", chunk["ra"], vec(lambda i: inp["ra"][i] * f, n), tol=1e-12),
               Check("dec", chunk["dec"], vec(lambda i: inp["dec"][i] * f, n), tol=1e-12)]
        if has_w:
            out.append(Check("weights_identical", chunk["weights"], inp["w"], tol=0))
        if has_z:
            out.append(Check("redshifts_identical", chunk["redshifts"], inp["z"], tol=0))
        if has_p:
            out.append(Check("patch_ids", cond=bool(np.array_equal(np.asarray(chunk["patch_ids"]), ids))))
            out.append(Check("patch_id_dtype", cond=(chunk.dtype["patch_ids"] == np.dtype("i2"))))
            rest, popped = DataChunk.pop(chunk, "patch_ids")
            out.append(Check("pop_removes_only_the_field", cond=(rest.dtype.names == names[:-1] and bool(np.array_equal(np.asarray(popped), ids)))))
            out.append(Check("pop_keeps_records", rest["ra"], chunk["ra"], tol=0))
        out.append(Check("hasattr", cond=(DataChunk.hasattr(chunk, "weights") == has_w and DataChunk.hasattr(chunk, "redshifts") == has_z)))
        out.append(Check("getattr_default", cond=(DataChunk.getattr(chunk, "weights", None) is None) == (not has_w)))
        coords = DataChunk.get_coords(chunk)
        out.append(Check("coords_ra", coords.ra, chunk["ra"], tol=0))
        out.append(Check("coords_dec", coords.dec, chunk["dec"], tol=0))
        return out


class CreateRejects(Harness):
    functions = (DataChunk.create, check_patch_ids, common_len_assert)
    modules = (dc_mod, misc_mod)
    xval = False

    BAD = (-1, 32768, 40000, 65535, 65536, 65541, 98303, -65535, 131072)

    def __init__(self):
        self.name = "chunk.create.rejects"
        self.bounds = "patch id outside 0..32767 (%d boundary / wrap-around values) at any position, unequal lengths, non-finite values" % len(self.BAD)

    def make_inputs(self, eng):
        return {"bad": eng.choose(len(self.BAD), "bad_id"), "pos": eng.choose(3, "position"), "kind": eng.choose(3, "fault")}

    def concrete_inputs(self, m, inp):
        return dict(inp)

    def body(self, inp):
        ra, dec = np.array([1.0, 2.0, 3.0]), np.array([0.1, 0.2, 0.3])
        try:
            if inp["kind"] == 0:
                ids = np.array([3, 4, 5], dtype=np.int64)
                ids[inp["pos"]] = self.BAD[inp["bad"]]
                DataChunk.create(ra, dec, patch_ids=ids)
            elif inp["kind"] == 1:
                DataChunk.create(ra, dec[:2] if inp["pos"] == 0 else dec, weights=None if inp["pos"] == 0 else np.ones(2 + 2 * (inp["pos"] == 2)))
            else:
                w = np.ones(3)
                w[inp["pos"]] = (np.nan, np.inf, -np.inf)[inp["bad"] % 3]
                DataChunk.create(ra, dec, weights=w)
        except ValueError:
            return [Check("rejected", cond=True)]
        return [Check("rejected", cond=False)]


class CreateDtypes(Harness):
    """input columns of any dtype castable to float: stored values are the float64 casts (conversion in float64)"""

    functions = (DataChunk.create,)
    modules = ()
    xval = False
    DTYPES = ("f8", "f4", "f2", "i4", "i8", "u2")

    def __init__(self):
        self.name = "chunk.create.dtypes"
        self.bounds = "concrete columns of dtype %s (chosen by the engine per column kind), degrees on/off" % (self.DTYPES,)

    def make_inputs(self, eng):
        return {"dt_coord": eng.choose(len(self.DTYPES), "dtype_coords"), "dt_attr": eng.choose(len(self.DTYPES), "dtype_attrs"),
                "degrees": eng.choose(2, "degrees")}

    def concrete_inputs(self, m, inp):
        return dict(inp)

    def body(self, inp):
        dc, da = self.DTYPES[inp["dt_coord"]], self.DTYPES[inp["dt_attr"]]
        ra = np.array([10.1, 200.7, 359.3]).astype(dc)
        dec = np.array([1.9, 45.2, 80.6]).astype(dc)
        w = np.array([1.1, 2.7, 3.3]).astype(da)
        z = np.array([0.13, 1.7, 2.9]).astype(da)
        _, chunk = DataChunk.create(ra, dec, weights=w, redshifts=z, degrees=bool(inp["degrees"]))
        conv = np.deg2rad if inp["degrees"] else (lambda x: x)
        return [Check("ra_float64_conversion", cond=bool(np.array_equal(chunk["ra"], conv(ra.astype("f8"))))),
                Check("dec_float64_conversion", cond=bool(np.array_equal(chunk["dec"], conv(dec.astype("f8"))))),
                Check("weights_bit_identical", cond=bool(np.array_equal(chunk["weights"], w.astype("f8")))),
                Check("redshifts_bit_identical", cond=bool(np.array_equal(chunk["redshifts"], z.astype("f8")))),
                Check("stored_as_float64", cond=all(chunk.dtype[n] == np.dtype("f8") for n in chunk.dtype.names))]


class Split(Harness):
    functions = (split_into_patches, assign_patch_centers, groupby, DataChunk.pop)
    modules = (cat_mod, dc_mod, misc_mod, yaw.coordinates)
    xval = False

    def __init__(self, n, N, mode, wrong=None):
        self.n, self.N, self.mode, self.wrong = n, N, mode, wrong
        self.name = "split.%s.n%d.N%d" % (mode, n, N) + (".twin-" + wrong if wrong else "")
        self.bounds = ("%d records x %d patches; %s; payload (weights) symbolic") % (
            n, N, "record positions symbolic 3-vectors, centres concrete (nearest centre decided by the solver)" if mode == "centers"
            else "patch ids chosen by the engine")
        self.must_fail = wrong is not None

    def make_inputs(self, eng):
        d = {"w": symarr("w", (self.n,))}
        if self.mode == "centers":
            # centres concrete (distinct, not all unit length), record positions symbolic: squared-distance comparisons
            # are then linear in the unknowns
            d["p"] = symarr("p", (self.n, 3))
            d["c"] = np.array([[1.0, 0.0, 0.0], [0.0, 1.0, 0.5], [0.25, -0.5, 1.0], [-1.0, 0.125, 0.0]])[: self.N]
            d["also_ids"] = eng.choose(2, "input_also_has_patch_ids")
        else:
            d["ids"] = [eng.choose(self.N, "id%d" % i) for i in range(self.n)]
        return d

    def concrete_inputs(self, m, inp):
        out = concretise(m, {k: inp[k] for k in ("w", "p", "c") if k in inp})
        for k in ("also_ids", "ids"):
            if k in inp:
                out[k] = inp[k]
        return out

    def body(self, inp):
        n, N = self.n, self.N
        symbolic = inp["w"].dtype == object
        ft = "O" if symbolic else "f8"
        fields = [("ra", ft), ("dec", ft), ("weights", ft)]
        with_ids = self.mode == "ids" or inp.get("also_ids")
        if with_ids:
            fields.append(("patch_ids", "i2"))
        chunk = np.empty(n, dtype=fields)
        chunk["ra"], chunk["dec"], chunk["weights"] = 0.125 * np.arange(1, n + 1), 0.0, inp["w"]
        if with_ids:
            chunk["patch_ids"] = inp["ids"] if self.mode == "ids" else 0
        chunk = wrap(chunk) if symbolic else chunk
        if self.mode == "centers":
            old_gc, old_vq = cat_mod.DataChunk, cat_mod.vq
            pts = inp["p"]

            class DC(DataChunk):
                @staticmethod
                def get_coords(ch):
                    return XYZCoords.from_xyz(pts)

            cat_mod.DataChunk = DC
            if symbolic:
                cat_mod.vq = vq_stub
            try:
                patches = split_into_patches(chunk, inp["c"])
            finally:
                cat_mod.DataChunk, cat_mod.vq = old_gc, old_vq
            d2 = [[sum(((inp["p"][i][k] - inp["c"][j][k]) * (inp["p"][i][k] - inp["c"][j][k]) for k in range(3)), 0) for j in range(N)] for i in range(n)]
        else:
            patches = split_into_patches(chunk, None)
        out = [Check("keys_are_ints", cond=all(type(k) is int for k in patches))]
        where = {}
        for pid, arr in patches.items():
            out.append(Check("patch_ids_field_dropped_%d" % pid, cond=(arr.dtype.names == ("ra", "dec", "weights"))))
            for r in range(len(arr)):
                idx = int(round(float(arr["ra"][r]) / 0.125)) - 1
                where.setdefault(idx, []).append((pid, arr["weights"][r]))
        out.append(Check("every_record_exactly_once", cond=(sorted(where) == list(range(n)) and all(len(v) == 1 for v in where.values()))))
        for i in range(n):
            if i not in where:
                continue
            pid, wv = where[i][0]
            out.append(Check("payload_travels_with_record_%d" % i, wv, inp["w"][i], tol=0))
            if self.mode == "ids":
                exp = inp["ids"][i] if self.wrong != "shift" else (inp["ids"][i] + 1) % N
                out.append(Check("patch_named_%d" % i, cond=(pid == exp)))
            else:
                # nearest centre (lowest index on ties)
                conds = []
                for j in range(N):
                    if j < pid:
                        conds.append(d2[i][pid] < d2[i][j])
                    elif j > pid:
                        conds.append(d2[i][pid] <= d2[i][j])
                if symbolic:
                    f = z3.And(*[c.e if isinstance(c, SB) else z3.BoolVal(bool(c)) for c in conds]) if conds else z3.BoolVal(True)
                    out.append(Check("nearest_centre_%d" % i, cond=SB(f)))
                else:
                    out.append(Check("nearest_centre_%d" % i, cond=all(bool(c) or abs(float(d2[i][pid]) - min(map(float, d2[i]))) < 1e-12 for c in conds)))
        return out


class Writer(Harness):
    functions = (PatchWriter.__init__, PatchWriter.process_chunk, PatchWriter.flush, PatchWriter.close, CatalogWriter.get_writer,
                 CatalogWriter.process_patches, CatalogWriter.finalize, DataChunkInfo.to_bytes, DataChunkInfo.from_bytes,
                 DataChunkInfo.get_list, read_patch_data, Patch.load_data, cat_mod.read_patch_ids)
    modules = (cat_mod, patch_mod, dc_mod, abc_mod, yaw.utils.parallel)
    xval = False

    def __init__(self, nchunks, wrong=None):
        self.nchunks, self.wrong = nchunks, wrong
        self.name = "writer.chunks%d" % nchunks + (".twin-" + wrong if wrong else "")
        self.bounds = ("%d incoming patch dictionaries over 2 patches with 1-2 records each; payloads symbolic; buffersize a symbolic "
                       "integer; optional columns (weights/redshifts: 4 combinations) and the delivery order of the dictionaries "
                       "(every permutation) chosen by the engine") % nchunks
        self.must_fail = wrong is not None

    def make_inputs(self, eng):
        d = {"vals": symarr("v", (self.nchunks, 2, 2, 4)), "buf": SV(z3.Int("buffersize")), "opt": eng.choose(4, "optional_columns")}
        perms = list(itertools.permutations(range(self.nchunks)))
        d["perm"] = list(perms[eng.choose(len(perms), "delivery_order")])
        d["lens"] = [[1 + eng.choose(2, "len_c%d_p%d" % (c, p)) for p in range(2)] for c in range(self.nchunks)]
        return d

    def concrete_inputs(self, m, inp):
        out = concretise(m, {"vals": inp["vals"], "buf": inp["buf"]})
        out["buf"] = int(out["buf"])
        for k in ("opt", "perm", "lens"):
            out[k] = inp[k]
        return out

    def mk_chunk(self, vals, length, has_w, has_z, symbolic):
        ft = "O" if symbolic else "f8"
        fields = [("ra", ft), ("dec", ft)] + ([("weights", ft)] if has_w else []) + ([("redshifts", ft)] if has_z else [])
        a = np.empty(length, dtype=fields)
        for k, (nm, _) in enumerate(fields):
            a[nm] = vals[:length, k]
        return wrap(a) if symbolic else a

    def body(self, inp):
        symbolic = inp["vals"].dtype == object
        has_w, has_z = bool(inp["opt"] & 1), bool(inp["opt"] & 2)
        names = ("ra", "dec") + (("weights",) if has_w else ()) + (("redshifts",) if has_z else ())
        info = DataChunkInfo(has_weights=has_w, has_redshifts=has_z)
        dicts = []
        for c in range(self.nchunks):
            # the key order of the dictionaries (= order in which patch writers are created) alternates
            dicts.append({p + 3: self.mk_chunk(inp["vals"][c, p], inp["lens"][c][p], has_w, has_z, symbolic)
                          for p in ((0, 1) if c % 2 == 0 else (1, 0))})
        order = inp["perm"]
        out = []
        if symbolic:
            fs = fsmodel.FS()
            ctx = patched_path(fs)
            target = "/cat"
        else:
            import shutil
            import tempfile

            tmp = tempfile.mkdtemp(prefix="c02w_", dir=runner.ROOT + "/scratch")
            ctx = types.SimpleNamespace(__enter__=lambda: None, __exit__=lambda *a: False)
            target = tmp + "/cat"
        try:
            if symbolic:
                ctx.__enter__()
                symnp.OBJECT_CREATION = True
            w = CatalogWriter(target, chunk_info=info, overwrite=False, buffersize=inp["buf"])
            for c in order:
                w.process_patches(dicts[c])
            counts = {pid: wr.num_processed + wr.cachesize for pid, wr in w.writers.items()}
            w.finalize()
            ids = cat_mod.read_patch_ids(w.cache_directory)
            out.append(Check("patch_ids_sorted", cond=(ids == [3, 4])))
            for p in range(2):
                pid = p + 3
                exp_rows = []
                for c in order:
                    ch = dicts[c][pid]
                    exp_rows += [tuple(ch[nm][r] for nm in names) for r in range(len(ch))]
                if self.wrong == "order" and len(exp_rows) > 1:
                    exp_rows = exp_rows[::-1]
                info2, data = read_patch_data(w.cache_directory / ("patch_%d" % pid) / "data.bin")
                out.append(Check("header_roundtrip_%d" % pid, cond=(info2.has_weights == has_w and info2.has_redshifts == has_z and not info2.has_patch_ids)))
                out.append(Check("field_order_%d" % pid, cond=(data.dtype.names == names)))
                out.append(Check("num_records_%d" % pid, cond=(len(data) == len(exp_rows) and w.writers[pid].num_processed == len(exp_rows))))
                if len(data) == len(exp_rows):
                    for k, nm in enumerate(names):
                        out.append(Check("records_in_arrival_order_%d_%s" % (pid, nm), data[nm], vec(lambda r: exp_rows[r][k], len(exp_rows)), tol=0))
        finally:
            if symbolic:
                ctx.__exit__(None, None, None)
            else:
                shutil.rmtree(tmp, ignore_errors=True)
        return out


class HeaderBits(Harness):
    functions = (DataChunkInfo.to_bytes, DataChunkInfo.from_bytes, DataChunkInfo.get_list)
    modules = (dc_mod,)
    xval = False

    def __init__(self):
        self.name = "header.bits"
        self.bounds = "all 8 flag combinations"

    def make_inputs(self, eng):
        return {"flags": eng.choose(8, "flags")}

    def concrete_inputs(self, m, inp):
        return dict(inp)

    def body(self, inp):
        w, z, p = bool(inp["flags"] & 1), bool(inp["flags"] & 2), bool(inp["flags"] & 4)
        info = DataChunkInfo(has_weights=w, has_redshifts=z, has_patch_ids=p)
        b = info.to_bytes()
        back = DataChunkInfo.from_bytes(b)
        exp = ["ra", "dec"] + (["weights"] if w else []) + (["redshifts"] if z else []) + (["patch_ids"] if p else [])
        return [Check("one_byte", cond=(len(b) == 1)), Check("roundtrip", cond=(back == info)), Check("attribute_list", cond=(info.get_list() == exp))]


def harnesses(tier):
    hs = [Create(2), CreateRejects(), CreateDtypes(), Split(2, 2, "centers"), Split(3, 2, "ids"), Writer(2), HeaderBits()]
    if tier == "thorough":
        hs += [Create(3), Split(3, 3, "centers"), Split(4, 3, "ids"), Writer(3)]
    hs += [Create(1, wrong="nodeg"), Split(2, 2, "ids", wrong="shift"), Writer(2, wrong="order")]
    return hs


def pre(res, tier):
    runner.run_crosshair(res, "C02", HARNESS, names=["dataframe_reader", "hdf_reader", "fits_reader", "parquet_reader", "random_reader"],
                         twins=["twin_dataframe_reader"], timeout_s=150 if tier == "quick" else 600)


if __name__ == "__main__":
    sys.exit(
        runner.main(
            "C02",
            harnesses,
            pre=pre,
            level="other",
            explanation="Chain on the real code: (readers) CrossHair confirms that every reader delivers rows 0..n-1 once, in "
            "order, for symbolic n / chunk size / row groups; (chunk creation) DataChunk.create/pop/get_coords executed "
            "symbolically for all 8 optional-column combinations and degrees on/off: field order, values identical, radian "
            "conversion, patch-id range with wrap-around boundary values, unequal lengths and non-finite values rejected; "
            "(assignment) split_into_patches / assign_patch_centers / groupby with record and centre positions symbolic "
            "(nearest centre decided by the solver) or named patch ids: every record in exactly one patch with its payload; "
            "(writer) CatalogWriter/PatchWriter/finalize + read_patch_data on the file-system model with symbolic payloads, a "
            "SYMBOLIC buffer size and every delivery order of the incoming patch dictionaries: data.bin = header + all records "
            "in arrival order, header and field order round-trip, patch_ids.bin sorted.",
            assumptions=[
                "float64 modelled as reals: 'exact to rounding' of deg2rad and float32 input columns are outside the claim",
                "FITS/HDF5/Parquet decoders, ndarray.tofile/fromfile and scipy.cluster.vq replaced by models (vf/stubs)",
                "the multi-process / MPI pipelines that deliver the patch dictionaries are C05/C06/C09; here every delivery "
                "order of the dictionaries is enumerated",
                "bounds: <= 3 records per chunk, <= 3 patches, <= 3 chunks",
            ],
            trusted_base=["z3", "CrossHair", "vf.stubs.fsmodel", "vf.stubs.vq"],
        )
    )
