"""C13 -- invariance under conventions (LEMMA LEVEL ONLY: the algebraic core, not two whole pipeline runs)."""
from __future__ import annotations

import itertools
import sys

import numpy as np
import z3

import yaw.catalog.catalog as cat_mod
import yaw.catalog.trees as trees_mod
import yaw.coordinates
import yaw.binning
import yaw.datachunk as dc_mod
import yaw.utils.misc as misc_mod
from yaw.catalog.catalog import split_into_patches
from yaw.catalog.trees import AngularTree
from yaw.correlation.corrfunc import CorrFunc
from yaw.correlation.paircounts import NormalisedCounts, PatchedCounts, PatchedSumWeights

from checks.C01 import TREE_MODS, make_tree
from checks.common import CORR_MODULES, build_counts, conc_binning, mat, sym_counts, vec, wrap
from vf import runner, uf
from vf.runner import Check, Harness
from vf.stubs.kdtree import SpecTree
from vf.symx import SB, SV, Engine, concretise, sarr, sym, symarr

MEMBERS = ("dd", "dr", "rr")


def relabel(inp, tag, perm, auto):
    """the same measurement with patch i renamed perm[i] (an autocorrelation stores a pair at (min, max))"""
    C = inp[tag + "_c"]
    B, P, _ = C.shape
    out = np.zeros((B, P, P), dtype=object)
    for i in range(P):
        for j in range(P):
            a, b = perm[i], perm[j]
            if auto and a > b:
                a, b = b, a
            for k in range(B):
                out[k, a, b] = out[k, a, b] + C[k, i, j]
    new = {tag + "_c": wrap(out)}
    inv = np.argsort(perm)
    new[tag + "_w1"] = inp[tag + "_w1"][:, inv]
    if not auto:
        new[tag + "_w2"] = inp[tag + "_w2"][:, inv]
    return new


class Relabel(Harness):
    functions = (CorrFunc.sample, NormalisedCounts.sample_patch_sum, PatchedSumWeights.get_array)
    modules = CORR_MODULES
    xval = False

    def __init__(self, P, auto, wrong=None):
        self.P, self.auto, self.wrong = P, auto, wrong
        self.name = "relabel.P%d.%s" % (P, "auto" if auto else "cross") + (".twin-" + wrong if wrong else "")
        self.bounds = "1 bin, %d patches, Landy-Szalay; all counts/weights symbolic; the permutation of the patch labels chosen by the engine" % P
        self.must_fail = wrong is not None

    def make_inputs(self, eng):
        d = {}
        for t in MEMBERS:
            d.update(sym_counts(t, 1, self.P, self.auto))
        if self.auto:  # an autocorrelation container only holds pairs with i <= j
            for t in MEMBERS:
                for i in range(self.P):
                    for j in range(i):
                        d[t + "_c"][0, i, j] = 0.0
        perms = list(itertools.permutations(range(self.P)))
        d["perm"] = list(perms[eng.choose(len(perms), "permutation")])
        return d

    def concrete_inputs(self, m, inp):
        out = concretise(m, {k: v for k, v in inp.items() if k != "perm"})
        out["perm"] = inp["perm"]
        return out

    def body(self, inp):
        binning = conc_binning(1)
        perm = inp["perm"]
        cf = CorrFunc(**{t: build_counts(inp, t, binning, self.auto) for t in MEMBERS})
        new = {}
        for t in MEMBERS:
            new.update(relabel(inp, t, perm, self.auto))
        cf2 = CorrFunc(**{t: build_counts(new, t, binning, self.auto) for t in MEMBERS})
        a, b = cf.sample(), cf2.sample()
        shift = 1 if self.wrong == "shift" else 0
        exp_samples = mat(lambda k, bb: a.samples[(list(perm).index(k) + shift) % self.P][bb], self.P, 1)
        out = [Check("amplitude_unchanged", b.data, a.data), Check("samples_permute_accordingly", b.samples, exp_samples)]
        ca, cb = np.atleast_2d(a.covariance), np.atleast_2d(b.covariance)
        out.append(Check("covariance_unchanged", cb, ca))
        return out


class WeightScale(Harness):
    functions = (CorrFunc.sample, NormalisedCounts.sample_patch_sum, AngularTree.count)
    modules = CORR_MODULES
    xval = False

    def __init__(self, P, wrong=None):
        self.P, self.wrong = P, wrong
        self.name = "weight_scale.P%d" % P + (".twin-" + wrong if wrong else "")
        self.bounds = "1 bin, %d patches, cross-correlation with dd/dr/rd/rr; all arrays and the positive factor symbolic; scaled catalog chosen by the engine" % P
        self.must_fail = wrong is not None

    def make_inputs(self, eng):
        d = {"a": sym("a")}
        eng.assume(d["a"] > 0)
        for t in ("dd", "dr", "rd", "rr"):
            d.update(sym_counts(t, 1, self.P, False))
        d["which"] = eng.choose(4, "scaled_catalog")  # reference / unknown / ref randoms / unk randoms
        return d

    def concrete_inputs(self, m, inp):
        out = concretise(m, {k: v for k, v in inp.items() if k != "which"})
        out["which"] = inp["which"]
        return out

    def body(self, inp):
        binning = conc_binning(1)
        a = inp["a"]
        # which containers see the scaled catalog as first / second sample: dd=(ref,unk) dr=(ref,unk_rand) rd=(ref_rand,unk) rr=(ref_rand,unk_rand)
        first = {0: ("dd", "dr"), 1: (), 2: ("rd", "rr"), 3: ()}[inp["which"]]
        second = {0: (), 1: ("dd", "rd"), 2: (), 3: ("dr", "rr")}[inp["which"]]
        new = dict(inp)
        for t in first + second:
            new[t + "_c"] = inp[t + "_c"] * a  # pair counts are bilinear in the weights (treecount.bilinear below)
        for t in first:
            new[t + "_w1"] = inp[t + "_w1"] * (a if self.wrong != "forgot" else 1.0)
        for t in second:
            new[t + "_w2"] = inp[t + "_w2"] * a
        mk = lambda src: CorrFunc(**{t: build_counts(src, t, binning, False) for t in ("dd", "dr", "rd", "rr")})
        x, y = mk(inp).sample(), mk(new).sample()
        return [Check("amplitude_unchanged", y.data, x.data), Check("samples_unchanged", y.samples, x.samples)]


class TreeBilinearAdditive(Harness):
    """AngularTree.count is bilinear in the weights, additive over a split of the first sample and independent of row order"""

    functions = (AngularTree.count,)
    modules = TREE_MODS
    xval = False

    def __init__(self, wrong=None):
        self.wrong = wrong
        self.name = "treecount.bilinear_additive_roworder" + (".twin-" + wrong if wrong else "")
        self.bounds = "2x2 points, 1 scale; pair chords, weights, limits, factor symbolic"
        self.must_fail = wrong is not None

    def make_inputs(self, eng):
        d = {"D": symarr("d", (2, 2)), "w1": symarr("w", (2,)), "w2": symarr("v", (2,)), "lo": sym("lo"), "hi": sym("hi"), "a": sym("a")}
        for x in d["D"].ravel():
            eng.assume((x >= 0) & (x <= 2))
        eng.assume((d["lo"] > 0) & (d["lo"] < d["hi"]) & (d["hi"] <= uf.pi()))
        eng.assume(d["a"] > 0)
        return d

    def body(self, inp):
        with uf.light_trig():
            D, w1, w2, a = inp["D"], inp["w1"], inp["w2"], inp["a"]
            symbolic = D.dtype == object
            lo = sarr([inp["lo"]]) if symbolic else np.array([inp["lo"]])
            hi = sarr([inp["hi"]]) if symbolic else np.array([inp["hi"]])
            other = lambda n: make_tree(SpecTree(data=np.zeros((n, 3))), w2, n)
            cnt = lambda DD, ww: make_tree(SpecTree(D=DD), ww, len(ww)).count(other(2), lo.copy(), hi.copy())[0]
            full = cnt(D, w1)
            scaled = cnt(D, w1 * a)
            partA, partB = cnt(D[:1], w1[:1]), cnt(D[1:], w1[1:])
            swapped = cnt(D[::-1], w1[::-1])
            factor = a if self.wrong != "square" else a * a
            return [Check("bilinear_in_weights", scaled, full * factor), Check("additive_over_a_split", partA + partB, full),
                    Check("independent_of_row_order", swapped, full)]


class RowOrder(Harness):
    functions = (split_into_patches, misc_mod.groupby)
    modules = (cat_mod, dc_mod, misc_mod)
    xval = False

    def __init__(self, n):
        self.n = n
        self.name = "split.row_order.n%d" % n
        self.bounds = "%d records with symbolic payload; patch ids and the row permutation chosen by the engine" % n

    def make_inputs(self, eng):
        d = {"w": symarr("w", (self.n,)), "ids": [eng.choose(2, "id%d" % i) for i in range(self.n)]}
        perms = list(itertools.permutations(range(self.n)))
        d["perm"] = list(perms[eng.choose(len(perms), "row_permutation")])
        return d

    def concrete_inputs(self, m, inp):
        out = concretise(m, {"w": inp["w"]})
        out["ids"], out["perm"] = inp["ids"], inp["perm"]
        return out

    def body(self, inp):
        n = self.n
        symbolic = inp["w"].dtype == object
        ft = "O" if symbolic else "f8"

        def chunk_of(order):
            c = np.empty(n, dtype=[("ra", ft), ("dec", ft), ("weights", ft), ("patch_ids", "i2")])
            c["ra"], c["dec"] = [0.125 * (i + 1) for i in order], 0.0
            c["weights"] = [inp["w"][i] for i in order]
            c["patch_ids"] = [inp["ids"][i] for i in order]
            return wrap(c) if symbolic else c

        def multiset(patches):
            return {pid: sorted(int(round(float(r) / 0.125)) - 1 for r in arr["ra"]) for pid, arr in patches.items()}

        a = split_into_patches(chunk_of(range(n)), None)
        b = split_into_patches(chunk_of(inp["perm"]), None)
        return [Check("same_patch_multisets", cond=(multiset(a) == multiset(b)))]


def harnesses(tier):
    # stages on which the invariances rest, re-used from the checks that own them: patch i <-> centre i for every arrival
    # order (relabelling / row order), per-patch weight sums and routing of pair counts (relabelling, weight scale)
    from checks.C01 import Accumulate, ProcessPair
    from checks.C11 import Hdf
    from checks.C12 import LoadPatches
    from checks.C14 import From3d

    hs = [Relabel(3, False), Relabel(3, True), WeightScale(2), TreeBilinearAdditive(), RowOrder(3), LoadPatches(3),
          ProcessPair(2, 1, "kpc", False), ProcessPair(2, 1, "kpc", True), Accumulate(2, 1, 1, True), Accumulate(2, 1, 1, False),
          # a stored measurement is restored exactly for EVERY real content, however small (weight scale through a file), and
          # patch centres derived from data are the direction of the mean vector whatever its length (rotation)
          Hdf(2, 1), From3d()]
    if tier == "thorough":
        hs += [Relabel(4, False), WeightScale(3), RowOrder(4)]
    hs += [Relabel(3, False, wrong="shift"), WeightScale(2, wrong="forgot"), TreeBilinearAdditive(wrong="square")]
    return hs


if __name__ == "__main__":
    sys.exit(
        runner.main(
            "C13",
            harnesses,
            level="other",
            explanation="LEMMA LEVEL ONLY.  The end-to-end metamorphic relations (two whole pipeline runs through KD-trees and "
            "file I/O) are not decidable by this technique; the claim is restricted to the algebraic core on the real code: "
            "relabelling patches permutes the jackknife samples and leaves amplitude and covariance unchanged (symbolic "
            "permutation of the patch axis of CorrFunc.sample); scaling all weights of one catalog by a > 0 leaves "
            "CorrFunc.sample() unchanged given counts bilinear in the weights; AngularTree.count over the specification tree is "
            "bilinear in the weights, additive over a split of a sample and independent of the row order; "
            "split_into_patches yields the same per-patch multisets for every row order.  Rotation invariance rests on C14 "
            "(distance is a function of the dot product; to_3d/from_3d mutually inverse).",
            assumptions=[
                "everything between these lemmas (catalog creation, tree building, patch linkage under rotated/relabelled inputs) "
                "is not covered by C13; see C01, C02, C12 for those stages in isolation",
                "float64 modelled as reals ('up to rounding' is not quantified)",
                "KD-tree replaced by the count_neighbors contract (SpecTree)",
            ],
            trusted_base=["z3", "vf.stubs.kdtree.SpecTree", "vf.uf"],
        )
    )
