"""C15 -- configurations mean what their parameters say; modify equals create."""
from __future__ import annotations

import math
import sys
import types

import numpy as np
import z3

import yaw.binning
import yaw.config.base
import yaw.config.binning
import yaw.config.combined
import yaw.config.scales
import yaw.cosmology
from yaw.config import BinningConfig, Configuration, ScalesConfig
from yaw.config.base import BaseConfig, ConfigError, Immutable
from yaw.cosmology import CustomCosmology, RedshiftBinningFactory, Scales, new_scales
from yaw.options import NotSet

from checks.common import vec, wrap
from vf import runner, uf
from vf.runner import Check, Harness
from vf.stubs.cosmology import TableCosmology, UFCosmology
from vf.symx import SB, SV, Engine, concretise, sarr, sym, symarr

MODS = (yaw.binning, yaw.cosmology, yaw.config.base, yaw.config.binning, yaw.config.scales, yaw.config.combined)
METHODS = ("linear", "comoving", "logspace")
CLOSED = ("right", "left")
UNITS = ("kpc", "Mpc", "rad", "deg", "arcmin", "arcsec", "kpc/h", "Mpc/h")


class UFCustom(UFCosmology, CustomCosmology):
    """an uninterpreted cosmology that is also a valid yaw CustomCosmology"""

    def __init__(self, fname, name):
        UFCosmology.__init__(self, fname)
        self.name = name


DEFAULT = UFCustom("DCdef", "Planck15")
ALT = UFCustom("DCalt", "WMAP9")


def _z_at_value(func, values, *a, **k):
    cosmo = getattr(func, "__self__", None)
    if not isinstance(cosmo, UFCosmology):
        cosmo = None
        for cell in getattr(func, "__closure__", None) or ():
            obj = cell.cell_contents
            obj = getattr(obj, "cosmology", obj)
            if isinstance(obj, UFCosmology):
                cosmo = obj
        if cosmo is None:
            raise RuntimeError("z_at_value stub: cannot find the cosmology behind %r" % (func,))
    vals = np.asarray(values, dtype=object).ravel()
    return types.SimpleNamespace(value=sarr([cosmo.z_at_distance(v) for v in vals]))


def _yaml_to_cosmology(name):
    if name == "Planck15":
        return DEFAULT
    if name == "WMAP9":
        return ALT
    raise ConfigError("unknown cosmology, for available options see 'astropy.cosmology.available'")


STUBS = {
    "yaw.cosmology": {
        "units": types.SimpleNamespace(Quantity=(), Mpc=1),
        "z_at_value": _z_at_value,
        "get_default_cosmology": lambda: DEFAULT,
    },
    "yaw.config.combined": {
        "get_default_cosmology": lambda: DEFAULT,
        "yaml_to_cosmology": _yaml_to_cosmology,
        "cosmology_to_yaml": lambda c: c.name,
    },
}


def cosmo_arg(idx, symbolic):
    """cosmology argument as a user would pass it: 0 = default by name, 1 = a non-default cosmology object"""
    if idx == 0:
        return "Planck15"
    if symbolic:
        return ALT
    import astropy.cosmology

    return astropy.cosmology.WMAP9


def cosmo_obj(idx, symbolic):
    if symbolic:
        return DEFAULT if idx == 0 else ALT
    import astropy.cosmology

    return astropy.cosmology.Planck15 if idx == 0 else astropy.cosmology.WMAP9


def dist(cosmo, kind, z):
    d = cosmo.comoving_distance(z) if kind == "com" else cosmo.angular_diameter_distance(z)
    return getattr(d, "value", d)


def same_cosmology(a, b):
    if isinstance(a, UFCosmology) or isinstance(b, UFCosmology):
        return a is b
    return a == b or a is b


def cfg_checks(prefix, got, exp):
    """attribute-wise comparison of two Configuration objects"""
    out = [
        Check(prefix + "_edges", got.binning.edges, exp.binning.edges, tol=1e-9),
        Check(prefix + "_binning_meta", cond=(got.binning.closed == exp.binning.closed and got.binning.method == exp.binning.method
                                              and got.binning.num_bins == exp.binning.num_bins)),
        Check(prefix + "_rmin", np.atleast_1d(wrap(np.asarray(got.scales.scales.scale_min))), np.atleast_1d(wrap(np.asarray(exp.scales.scales.scale_min)))),
        Check(prefix + "_rmax", np.atleast_1d(wrap(np.asarray(got.scales.scales.scale_max))), np.atleast_1d(wrap(np.asarray(exp.scales.scales.scale_max)))),
        Check(prefix + "_scales_meta", cond=(got.scales.unit == exp.scales.unit and got.scales.resolution == exp.scales.resolution
                                             and type(got.scales.scales) is type(exp.scales.scales))),
        Check(prefix + "_cosmology", cond=same_cosmology(got.cosmology, exp.cosmology)),
        Check(prefix + "_max_workers", cond=(got.max_workers == exp.max_workers)),
    ]
    gw, ew = got.scales.rweight, exp.scales.rweight
    if gw is None or ew is None:
        out.append(Check(prefix + "_rweight", cond=(gw is None and ew is None)))
    else:
        out.append(Check(prefix + "_rweight", gw, ew))
    return out


class _Cfg(Harness):
    modules = MODS
    extra = STUBS
    xval = False

    def choice_keys(self):
        return ()

    def concrete_inputs(self, m, inp):
        ck = set(self.choice_keys())
        out = concretise(m, {k: v for k, v in inp.items() if k not in ck})
        for k in ck:
            out[k] = inp[k]
        return out


class CreateBinning(_Cfg):
    functions = (Configuration.create, Configuration.__init__, BinningConfig.create, BinningConfig.__init__,
                 RedshiftBinningFactory.linear, RedshiftBinningFactory.comoving, RedshiftBinningFactory.logspace,
                 RedshiftBinningFactory.get_method, yaw.binning.parse_binning, yaw.config.combined.parse_cosmology)

    def __init__(self, nbins, wrong=None):
        self.nbins, self.wrong = nbins, wrong
        self.name = "create.binning.n%d" % nbins + (".twin-" + wrong if wrong else "")
        self.bounds = "num_bins=%d; zmin, zmax symbolic; method x closed x cosmology (default by name / non-default object) chosen by the engine" % nbins
        self.assumptions = ("0 <= zmin < zmax",)
        self.must_fail = wrong is not None

    def choice_keys(self):
        return ("method", "closed", "cosmo")

    def make_inputs(self, eng):
        d = {"zmin": sym("zmin"), "zmax": sym("zmax")}
        eng.assume((d["zmin"] >= 0) & (d["zmin"] < d["zmax"]) & (d["zmax"] <= 4))
        d["method"], d["closed"], d["cosmo"] = eng.choose(3, "method"), eng.choose(2, "closed"), eng.choose(2, "cosmo")
        return d

    def body(self, inp):
        symbolic = isinstance(inp["zmin"], SV)
        method, closed = METHODS[inp["method"]], CLOSED[inp["closed"]]
        cfg = Configuration.create(rmin=100.0, rmax=1000.0, zmin=inp["zmin"], zmax=inp["zmax"], num_bins=self.nbins,
                                   method=method, closed=closed, cosmology=cosmo_arg(inp["cosmo"], symbolic))
        e = cfg.binning.edges
        n = self.nbins if self.wrong != "count" else self.nbins + 1
        out = [Check("num_bins", cond=(len(e) == n + 1 and cfg.binning.num_bins == n)),
               Check("first_edge_is_zmin", e[0], inp["zmin"], tol=1e-9),
               Check("last_edge_is_zmax", e[-1], inp["zmax"], tol=1e-9),
               Check("strictly_increasing", cond=[e[i] < e[i + 1] for i in range(len(e) - 1)]),
               Check("meta", cond=(str(cfg.binning.method) == method and str(cfg.binning.closed) == closed
                                   and same_cosmology(cfg.cosmology, cosmo_obj(inp["cosmo"], symbolic)))),
               Check("zmin_zmax_props", cond=[cfg.binning.zmin == e[0], cfg.binning.zmax == e[-1]])]
        # spacing rule of the method (uniform in z / comoving distance / ln(1+z))
        cos = cosmo_obj(inp["cosmo"], symbolic)
        if method == "linear":
            f = lambda z: z
        elif method == "comoving":
            f = lambda z: dist(cos, "com", z)
        else:
            f = (lambda z: uf.ln(1.0 + z)) if symbolic else (lambda z: math.log(1.0 + z))
        if len(e) > 2:
            steps = [f(e[i + 1]) - f(e[i]) for i in range(len(e) - 1)]
            out.append(Check("uniform_spacing_in_method_variable", vec(lambda i: steps[i], len(steps) - 1),
                             vec(lambda i: steps[i + 1], len(steps) - 1), tol=1e-6))
        return out


class CreateScales(_Cfg):
    functions = (ScalesConfig.create, ScalesConfig.__init__, new_scales, Scales._set_scales, Scales.get_angle_radian,
                 yaw.cosmology.AngularScales._compute_angle, yaw.cosmology.PhysicalScales._compute_angle,
                 yaw.cosmology.ComovingScales._compute_angle)

    def __init__(self, S):
        self.S = S
        self.name = "create.scales.S%d" % S
        self.bounds = "scales=%d; limits, redshift, exponent symbolic; all 8 units in one run, for two cosmologies" % S
        self.assumptions = ("0 < rmin < rmax", "z > 0")

    def make_inputs(self, eng):
        d = {"rmin": symarr("rmin", (self.S,)), "rmax": symarr("rmax", (self.S,)), "z": sym("z"), "rweight": sym("alpha")}
        for s in range(self.S):
            eng.assume((d["rmin"][s] > 0) & (d["rmin"][s] < d["rmax"][s]))
        eng.assume((d["z"] > 0) & (d["z"] <= 4))
        return d

    def body(self, inp):
        symbolic = isinstance(inp["z"], SV)
        z = inp["z"]
        pi = uf.pi() if symbolic else math.pi
        out = []
        rmin = inp["rmin"] if self.S > 1 else inp["rmin"][0]
        rmax = inp["rmax"] if self.S > 1 else inp["rmax"][0]
        for unit in UNITS:
            sc = ScalesConfig.create(rmin=rmin, rmax=rmax, unit=unit, rweight=inp["rweight"], resolution=11)
            out.append(Check("meta_" + unit, cond=(sc.unit == unit and sc.num_scales == self.S and sc.resolution == 11)))
            out.append(Check("rweight_" + unit, sc.rweight, inp["rweight"]))
            for ci in (0, 1):
                cos = cosmo_obj(ci, symbolic)
                lo, hi = sc.scales.get_angle_radian(z, cosmology=cos)
                for nm, got, r in (("min", lo, inp["rmin"]), ("max", hi, inp["rmax"])):
                    if unit == "rad":
                        exp = [r[s] for s in range(self.S)]
                    elif unit in ("deg", "arcmin", "arcsec"):
                        f = {"deg": 1.0, "arcmin": 60.0, "arcsec": 3600.0}[unit]
                        exp = [r[s] / f * pi / 180.0 for s in range(self.S)]
                    elif unit in ("kpc", "Mpc"):
                        exp = [(r[s] / 1000.0 if unit == "kpc" else r[s]) / dist(cos, "ang", z) for s in range(self.S)]
                    else:
                        exp = [(r[s] / 1000.0 if unit == "kpc/h" else r[s]) / dist(cos, "com", z) for s in range(self.S)]
                    out.append(Check("angle_%s_%s_cosmo%d" % (nm, unit, ci), np.atleast_1d(wrap(np.asarray(got))),
                                     vec(lambda s: exp[s], self.S), tol=1e-9))
        return out


def must_raise(name, fn, excs=(ConfigError, ValueError, TypeError)):
    try:
        fn()
    except excs:
        return Check(name, cond=True)
    return Check(name, cond=False)


class Invalid(_Cfg):
    functions = (Configuration.create, BinningConfig.create, ScalesConfig.__init__, yaw.binning.parse_binning,
                 Scales._set_scales, yaw.config.combined.parse_cosmology, Immutable.__setattr__)

    def __init__(self):
        self.name = "invalid.parameters"
        self.bounds = "2-3 custom edges with a symbolic non-increasing step, symbolic rmin >= rmax; enumerated unknown names"

    def make_inputs(self, eng):
        d = {"e": symarr("e", (3,)), "rmin": sym("rmin"), "rmax": sym("rmax"), "zmin": sym("zmin"), "zmax": sym("zmax")}
        eng.assume((d["e"][0] >= d["e"][1]) | (d["e"][1] >= d["e"][2]))
        eng.assume((d["rmin"] > 0) & (d["rmin"] >= d["rmax"]))
        eng.assume((d["zmin"] >= 0) & (d["zmin"] >= d["zmax"]))
        return d

    def body(self, inp):
        ok = dict(rmin=100.0, rmax=1000.0, zmin=0.25, zmax=1.0, num_bins=2)
        mk = lambda **kw: (lambda: Configuration.create(**{**ok, **kw}))
        cfg = Configuration.create(**ok)
        out = [
            must_raise("non_increasing_edges", mk(zmin=None, zmax=None, edges=inp["e"].copy())),
            must_raise("rmin_ge_rmax", mk(rmin=inp["rmin"], rmax=inp["rmax"])),
            must_raise("rmin_ge_rmax_list", mk(rmin=[100.0, inp["rmin"]], rmax=[200.0, inp["rmax"]])),
            must_raise("zmin_ge_zmax", mk(zmin=inp["zmin"], zmax=inp["zmax"])),
            must_raise("scales_length_mismatch", mk(rmin=[100.0, 200.0], rmax=[1000.0])),
            must_raise("unknown_method", mk(method="quadratic")),
            must_raise("unknown_unit", mk(unit="lightyears")),
            must_raise("unknown_closed", mk(closed="both")),
            must_raise("unknown_cosmology", mk(cosmology="NotACosmology")),
            must_raise("cosmology_wrong_type", mk(cosmology=3.5)),
            must_raise("neither_edges_nor_zrange", mk(zmin=None, zmax=None)),
            must_raise("only_zmin", mk(zmax=None)),
            must_raise("single_edge", mk(zmin=None, zmax=None, edges=[0.5])),
            must_raise("modify_method_custom_without_edges", lambda: cfg.modify(method="custom")),
            must_raise("immutable_config", lambda: setattr(cfg, "max_workers", 3), excs=(AttributeError,)),
            must_raise("immutable_binning", lambda: setattr(cfg.binning, "method", "linear"), excs=(AttributeError,)),
            must_raise("immutable_scales", lambda: setattr(cfg.scales, "rweight", 1.0), excs=(AttributeError,)),
            must_raise("unknown_entry_from_dict", lambda: Configuration.from_dict({**cfg.to_dict(), "extra": 1})),
        ]
        return out


BIN_MODS = [("zmin",), ("zmax",), ("num_bins",), ("method",), ("closed",), ("cosmology",), ("zmin", "zmax"),
            ("method", "cosmology"), ("num_bins", "closed"), ("zmin", "cosmology"), ("max_workers",)]


class ModifyBinning(_Cfg):
    functions = (Configuration.modify, BinningConfig.modify, BinningConfig.from_dict, BinningConfig.to_dict,
                 Configuration.__eq__, BinningConfig.__eq__, ScalesConfig.__eq__)

    def __init__(self, nbins, mods=None, wrong=None):
        self.nbins, self.mods, self.wrong = nbins, mods or BIN_MODS, wrong
        self.name = "modify.binning.n%d%s" % (nbins, "" if mods is None else "." + "+".join("_".join(m) for m in mods)) + (
            ".twin-" + wrong if wrong else "")
        self.bounds = ("num_bins=%d; zmin,zmax and their replacements symbolic; base method x closed x cosmology and the set of "
                       "modified parameters %s chosen by the engine") % (nbins, self.mods)
        self.assumptions = ("0 <= zmin < zmax for the base and the merged parameters",)
        self.must_fail = wrong is not None

    def choice_keys(self):
        return ("method", "closed", "cosmo", "mod", "method2")

    def make_inputs(self, eng):
        d = {k: sym(k) for k in ("zmin", "zmax", "zmin2", "zmax2")}
        eng.assume((d["zmin"] >= 0) & (d["zmin"] < d["zmax"]) & (d["zmax"] <= 4))
        d["method"], d["closed"], d["cosmo"] = eng.choose(3, "method"), eng.choose(2, "closed"), eng.choose(2, "cosmo")
        d["mod"] = eng.choose(len(self.mods), "modified_parameters")
        d["method2"] = eng.choose(3, "new_method")
        mod = self.mods[d["mod"]]
        lo = d["zmin2"] if "zmin" in mod else d["zmin"]
        hi = d["zmax2"] if "zmax" in mod else d["zmax"]
        eng.assume((lo >= 0) & (lo < hi) & (hi <= 4))
        return d

    def body(self, inp):
        symbolic = isinstance(inp["zmin"], SV)
        base = dict(rmin=100.0, rmax=1000.0, zmin=inp["zmin"], zmax=inp["zmax"], num_bins=self.nbins,
                    method=METHODS[inp["method"]], closed=CLOSED[inp["closed"]], cosmology=cosmo_arg(inp["cosmo"], symbolic),
                    max_workers=2)
        mod = self.mods[inp["mod"]]
        new = {"zmin": inp["zmin2"], "zmax": inp["zmax2"], "num_bins": self.nbins + 1, "method": METHODS[inp["method2"]],
               "closed": CLOSED[1 - inp["closed"]], "cosmology": cosmo_arg(1 - inp["cosmo"], symbolic), "max_workers": 5}
        kw = {k: new[k] for k in mod}
        cfg = Configuration.create(**base)
        before = cfg.to_dict()
        got = cfg.modify(**kw)
        merged = {**base, **kw}
        if self.wrong == "stale":
            merged = dict(base)
        exp = Configuration.create(**merged)
        out = cfg_checks("modify_equals_create", got, exp)
        out.append(Check("eq_operator", cond=bool(got == exp)))
        after = cfg.to_dict()
        out.append(Check("original_untouched", cond=(_flat(before) == _flat(after) if not symbolic else _same_dict(before, after))))
        return out


def _flat(d):
    return repr(d)


def _same_dict(a, b):
    if isinstance(a, dict):
        return isinstance(b, dict) and a.keys() == b.keys() and all(_same_dict(a[k], b[k]) for k in a)
    if isinstance(a, (list, tuple)):
        return len(a) == len(b) and all(_same_dict(x, y) for x, y in zip(a, b))
    if isinstance(a, SV) or isinstance(b, SV):
        return bool(z3.is_true(z3.simplify((a == b).e))) if isinstance((a == b), SB) else bool(a == b)
    return a == b


SC_MODS = [("rmin",), ("rmax",), ("unit",), ("rweight",), ("resolution",), ("rmin", "rmax"), ("unit", "rweight"), ("rweight_none",)]


class ModifyScales(_Cfg):
    functions = (Configuration.modify, ScalesConfig.modify, BaseConfig.modify, ScalesConfig.to_dict, BaseConfig.from_dict,
                 ScalesConfig.__eq__)

    def __init__(self, S):
        self.S = S
        self.name = "modify.scales.S%d" % S
        self.bounds = "scales=%d; limits, replacements and exponents symbolic; unit, new unit and the modified parameters chosen by the engine" % S
        self.assumptions = ("0 < rmin < rmax for base and merged parameters",)

    def choice_keys(self):
        return ("unit", "unit2", "mod")

    def make_inputs(self, eng):
        S = self.S
        d = {"rmin": symarr("rmin", (S,)), "rmax": symarr("rmax", (S,)), "rmin2": symarr("rminn", (S,)), "rmax2": symarr("rmaxn", (S,)),
             "rw": sym("rw"), "rw2": sym("rw2")}
        d["unit"], d["unit2"], d["mod"] = eng.choose(3, "unit"), eng.choose(3, "unit2"), eng.choose(len(SC_MODS), "mod")
        mod = SC_MODS[d["mod"]]
        for s in range(S):
            eng.assume((d["rmin"][s] > 0) & (d["rmin"][s] < d["rmax"][s]))
            lo = d["rmin2"][s] if "rmin" in mod else d["rmin"][s]
            hi = d["rmax2"][s] if "rmax" in mod else d["rmax"][s]
            eng.assume((lo > 0) & (lo < hi))
        return d

    def body(self, inp):
        S = self.S
        units = ("kpc", "arcmin", "Mpc/h")
        pick = (lambda a: a.copy()) if S > 1 else (lambda a: a[0])
        base = dict(rmin=pick(inp["rmin"]), rmax=pick(inp["rmax"]), unit=units[inp["unit"]], rweight=inp["rw"], resolution=20,
                    zmin=0.25, zmax=1.0, num_bins=2)
        mod = SC_MODS[inp["mod"]]
        new = {"rmin": pick(inp["rmin2"]), "rmax": pick(inp["rmax2"]), "unit": units[inp["unit2"]], "rweight": inp["rw2"],
               "resolution": 33}
        kw = {k: new[k] for k in mod if k in new}
        if "rweight_none" in mod:
            kw["rweight"] = None
        cfg = Configuration.create(**base)
        got = cfg.modify(**kw)
        exp = Configuration.create(**{**base, **kw})
        out = cfg_checks("modify_equals_create", got, exp)
        out.append(Check("eq_operator", cond=bool(got == exp)))
        out.append(Check("original_untouched_rmin", np.atleast_1d(wrap(np.asarray(cfg.scales.scales.scale_min))), inp["rmin"]))
        out.append(Check("original_untouched_meta", cond=(cfg.scales.unit == units[inp["unit"]] and cfg.scales.resolution == 20)))
        sc = cfg.scales.modify(**kw)
        out.append(Check("scalesconfig_modify", cond=bool(sc == exp.scales)))
        return out


class ModifyCustom(_Cfg):
    functions = (Configuration.modify, BinningConfig.modify, BinningConfig.from_dict, BinningConfig.to_dict)

    def __init__(self):
        self.name = "modify.custom_edges"
        self.bounds = "3 symbolic custom edges (+3 replacement edges); modified parameter chosen by the engine"
        self.assumptions = ("edges strictly increasing",)

    def choice_keys(self):
        return ("mod", "closed")

    MODS = ("closed", "edges", "rmax", "cosmology", "max_workers", "to_generated", "zmin_only")

    def make_inputs(self, eng):
        d = {"e": symarr("e", (3,)), "e2": symarr("f", (3,)), "zmin2": sym("zmin2"), "zmax2": sym("zmax2")}
        for a in (d["e"], d["e2"]):
            eng.assume((a[0] >= 0) & (a[0] < a[1]) & (a[1] < a[2]) & (a[2] <= 4))
        eng.assume((d["zmin2"] >= 0) & (d["zmin2"] < d["zmax2"]) & (d["zmax2"] <= 4))
        d["mod"], d["closed"] = eng.choose(len(self.MODS), "mod"), eng.choose(2, "closed")
        return d

    def body(self, inp):
        symbolic = isinstance(inp["e"][0], SV)
        base = dict(rmin=100.0, rmax=1000.0, edges=inp["e"].copy(), closed=CLOSED[inp["closed"]])
        cfg = Configuration.create(**base)
        out = [Check("custom_method", cond=(str(cfg.binning.method) == "custom" and cfg.binning.is_custom)),
               Check("custom_edges_kept", cfg.binning.edges, inp["e"])]
        mod = self.MODS[inp["mod"]]
        kw = {"closed": dict(closed=CLOSED[1 - inp["closed"]]), "edges": dict(edges=inp["e2"].copy()), "rmax": dict(rmax=2000.0),
              "cosmology": dict(cosmology=cosmo_arg(1, symbolic)), "max_workers": dict(max_workers=3),
              "to_generated": dict(zmin=inp["zmin2"], zmax=inp["zmax2"], num_bins=2, method="linear"),
              "zmin_only": dict(zmin=inp["zmin2"])}[mod]
        try:
            got = cfg.modify(**kw)
        except ConfigError:
            if mod in ("zmin_only",):  # ill-defined request on custom edges: rejecting it is acceptable
                return out + [Check("rejected", cond=True)]
            raise
        exp = Configuration.create(**{**base, **kw})
        out += cfg_checks("modify_equals_create", got, exp)
        out.append(Check("eq_operator", cond=bool(got == exp)))
        out.append(Check("original_untouched", cfg.binning.edges, inp["e"]))
        return out


class EqualAndRoundtrip(_Cfg):
    functions = (Configuration.__eq__, BinningConfig.__eq__, ScalesConfig.__eq__, Configuration.to_dict, Configuration.from_dict,
                 yaw.cosmology.cosmology_is_equal)

    def __init__(self, S):
        self.S = S
        self.name = "equal.and.dict_roundtrip.S%d" % S
        self.bounds = "scales=%d num_bins=2; zmin,zmax,limits,exponent symbolic; method x closed x unit x cosmology chosen by the engine" % S
        self.assumptions = ("valid parameters",)

    def choice_keys(self):
        return ("method", "closed", "unit", "cosmo")

    def make_inputs(self, eng):
        d = {"zmin": sym("zmin"), "zmax": sym("zmax"), "rmin": symarr("rmin", (self.S,)), "rmax": symarr("rmax", (self.S,)), "rw": sym("rw")}
        eng.assume((d["zmin"] >= 0) & (d["zmin"] < d["zmax"]) & (d["zmax"] <= 4))
        for s in range(self.S):
            eng.assume((d["rmin"][s] > 0) & (d["rmin"][s] < d["rmax"][s]))
        d["method"], d["closed"], d["unit"], d["cosmo"] = (eng.choose(3, "method"), eng.choose(2, "closed"), eng.choose(3, "unit"),
                                                             eng.choose(2, "cosmo"))
        return d

    def body(self, inp):
        symbolic = isinstance(inp["zmin"], SV)
        pick = (lambda a: a.copy()) if self.S > 1 else (lambda a: a[0])
        mk = lambda: Configuration.create(
            rmin=pick(inp["rmin"]), rmax=pick(inp["rmax"]), unit=("kpc", "deg", "Mpc/h")[inp["unit"]], rweight=inp["rw"], resolution=9,
            zmin=inp["zmin"], zmax=inp["zmax"], num_bins=2, method=METHODS[inp["method"]], closed=CLOSED[inp["closed"]],
            cosmology=cosmo_arg(inp["cosmo"], symbolic))
        a, b = mk(), mk()
        out = [Check("equal_parameters_compare_equal", cond=bool(a == b)), Check("reflexive", cond=bool(a == a)),
               Check("binning_eq", cond=bool(a.binning == b.binning)), Check("scales_eq", cond=bool(a.scales == b.scales))]
        other = a.modify(closed=CLOSED[1 - inp["closed"]])
        out.append(Check("different_closed_not_equal", cond=not bool(a == other)))
        other = a.modify(resolution=10)
        out.append(Check("different_resolution_not_equal", cond=not bool(a == other)))
        other = a.modify(cosmology=cosmo_arg(1 - inp["cosmo"], symbolic))
        if not symbolic:  # two uninterpreted custom cosmologies always compare equal by definition
            out.append(Check("different_cosmology_not_equal", cond=not bool(a == other)))
        if not symbolic or inp["cosmo"] == 0:
            d = a.to_dict()
            c = Configuration.from_dict(d)
            out += cfg_checks("dict_roundtrip", c, a)
        return out


class CustomCosmologyAccepted(_Cfg):
    functions = (yaw.config.combined.parse_cosmology, Configuration.create, RedshiftBinningFactory.comoving)

    def __init__(self):
        self.name = "custom_cosmology.accepted"
        self.bounds = "a user-defined CustomCosmology instance; method chosen by the engine; zmin,zmax symbolic"
        self.assumptions = ("0 < zmin < zmax",)

    def choice_keys(self):
        return ("method",)

    def make_inputs(self, eng):
        d = {"zmin": sym("zmin"), "zmax": sym("zmax")}
        eng.assume((d["zmin"] > 0) & (d["zmin"] < d["zmax"]) & (d["zmax"] <= 4))
        d["method"] = eng.choose(3, "method")
        return d

    def body(self, inp):
        symbolic = isinstance(inp["zmin"], SV)
        if symbolic:
            cos = ALT
        else:
            class Mine(CustomCosmology):
                def comoving_distance(self, z):
                    return 3000.0 * np.log1p(np.asarray(z, dtype=float))

                def angular_diameter_distance(self, z):
                    return self.comoving_distance(z) / (1.0 + np.asarray(z, dtype=float))

            cos = Mine()
        cfg = Configuration.create(rmin=100.0, rmax=1000.0, zmin=inp["zmin"], zmax=inp["zmax"], num_bins=2,
                                   method=METHODS[inp["method"]], cosmology=cos)
        e = cfg.binning.edges
        out = [Check("accepted", cond=(cfg.cosmology is cos)), Check("edges_span", vec(lambda i: (e[0], e[-1])[i], 2),
                                                                       vec(lambda i: (inp["zmin"], inp["zmax"])[i], 2), tol=1e-7)]
        b = BinningConfig.create(zmin=inp["zmin"], zmax=inp["zmax"], num_bins=2, method=METHODS[inp["method"]], cosmology=cos)
        out.append(Check("binningconfig_accepts", b.edges, e, tol=1e-9))
        m = cfg.modify(num_bins=3)
        out.append(Check("modify_keeps_custom_cosmology", cond=(m.cosmology is cos)))
        return out


def harnesses(tier):
    hs = [CreateBinning(2), CreateScales(1), Invalid(), ModifyBinning(2), ModifyScales(1), ModifyCustom(), EqualAndRoundtrip(1),
          CustomCosmologyAccepted()]
    if tier == "thorough":
        hs += [CreateBinning(1), CreateBinning(3), CreateScales(2), ModifyBinning(1), ModifyBinning(3), ModifyScales(2), EqualAndRoundtrip(2)]
    hs += [CreateBinning(1, wrong="count"), ModifyBinning(1, mods=[("zmin",)], wrong="stale")]
    return hs


if __name__ == "__main__":
    sys.exit(
        runner.main(
            "C15",
            harnesses,
            level="other",
            explanation="Bounded symbolic execution of the real configuration classes (create / modify / from_dict / to_dict / "
            "__eq__, the three binning factory methods, scale conversion for all 8 units, parameter validation) with zmin, zmax, "
            "scale limits, exponent and custom edges as solver variables and the cosmology's distance functions uninterpreted "
            "(two distinct instances: default-by-name and a non-default object).  Finite choices (method, closed side, unit, "
            "cosmology, which parameters are modified) are engine choices, so every combination listed is enumerated.",
            assumptions=[
                "float64 modelled as exact reals: float identity of regenerated comoving/logspace edges is outside the claim",
                "astropy (units, z_at_value, named cosmologies) replaced by uninterpreted functions: D_C strictly increasing, "
                "D_C(0)=0, D_A=D_C/(1+z), z_at_value inverse of D_C; ln/exp strictly increasing mutual inverses",
                "counterexamples are replayed with real astropy cosmologies (Planck15 / WMAP9) or a user-defined CustomCosmology",
                "num_bins <= 3, scales <= 2",
            ],
            trusted_base=["z3", "vf.stubs.cosmology.UFCosmology", "vf.uf axioms"],
        )
    )
