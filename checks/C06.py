"""C06 -- MPI runs terminate and the root rank gets the single-process result (decided against a simulated MPI world)."""
from __future__ import annotations

import os
import shutil
import sys
import tempfile
import warnings

warnings.filterwarnings("ignore")

import numpy as np

# the MPI code of yaw is selected at import time: a fake mpi4py must be in place BEFORE yaw is imported
from vf import world as W

MPI = W.install()
W.WorldProxy.cur = W.World(2, lambda n, label=None: 0)

import yaw.catalog.catalog as cat_mod  # noqa: E402
import yaw.utils.parallel as par  # noqa: E402
from yaw.catalog.catalog import Catalog  # noqa: E402
from yaw.coordinates import AngularCoordinates  # noqa: E402

from vf import runner  # noqa: E402
from vf.runner import Check, Harness  # noqa: E402
from vf.symx import Engine  # noqa: E402

assert par.use_mpi(), "fake mpi4py was not picked up"


def run_world(eng, size, eager, target):
    """run `target(rank)` on every rank of a fresh world; wildcard matches are engine choices"""
    w = W.World(size, (lambda n, label="wildcard": eng.choose(n, label)), eager=eager)
    W.WorldProxy.cur = w
    try:
        results = w.run(target)
        return dict(deadlock=None, results=results, errors={r: "%s: %s" % (type(e).__name__, str(e)[:120]) for r, e in w.errors.items()},
                    choices=w.nchoices, leftover=len(w.mail))
    except W.Deadlock as d:
        return dict(deadlock=str(d)[:400], results={}, errors={r: "%s: %s" % (type(e).__name__, str(e)[:120]) for r, e in w.errors.items()},
                    choices=w.nchoices, leftover=len(w.mail))


class IterUnordered(Harness):
    functions = (par.iter_unordered, par._mpi_iter_unordered, par._mpi_root_task, par._mpi_worker_task, par.get_size, par.ParallelJob.__call__)
    xval = False

    def __init__(self, size, max_tasks, wrong=None):
        self.size, self.max_tasks, self.wrong = size, max_tasks, wrong
        self.name = "iter_unordered.world%d" % size + (".twin-" + wrong if wrong else "")
        self.bounds = ("world size %d; 0..%d tasks; max_workers None/1..%d; eager and synchronous sends; every wildcard-receive match "
                       "chosen by the engine") % (size, max_tasks, size)
        self.must_fail = wrong is not None

    def make_inputs(self, eng):
        d = {"ntasks": eng.choose(self.max_tasks + 1, "ntasks"), "mw": eng.choose(self.size + 1, "max_workers"), "eager": eng.choose(2, "eager_sends")}
        d["_eng"] = eng
        return d

    def concrete_inputs(self, m, inp):
        return {k: v for k, v in inp.items() if k != "_eng"}

    def body(self, inp):
        eng = inp.get("_eng") or _ReplayEngine(inp.get("choices", []))
        n, mw = inp["ntasks"], (None if inp["mw"] == 0 else inp["mw"])
        calls = []

        def work(x):
            calls.append(x)
            return x * 10

        def target(rank):
            return sorted(par.iter_unordered(work, list(range(n)), max_workers=mw))

        out = run_world(eng, self.size, bool(inp["eager"]), target)
        inp["choices"] = [c[2] for c in getattr(eng, "choices", []) if c[0] == "wildcard"] if hasattr(eng, "choices") else inp.get("choices", [])
        tag = "[max_workers=%s]" % mw
        exp = [x * 10 for x in range(n)] if self.wrong != "strict" else [-1]
        return [Check("terminates" + tag, cond=(out["deadlock"] is None)),
                Check("no_rank_fails" + tag, cond=(not out["errors"])),
                Check("every_task_executed_once" + tag, cond=(out["deadlock"] is not None or sorted(calls) == list(range(n)))),
                Check("root_gets_all_results" + tag, cond=(out["deadlock"] is not None or out["results"].get(0) == exp))]


class _ReplayEngine:
    """deterministic re-run of a recorded schedule (MPI is not available for a real replay)"""

    def __init__(self, choices):
        self.seq, self.i = list(choices), 0

    def choose(self, n, label="choice"):
        v = self.seq[self.i] if self.i < len(self.seq) else 0
        self.i += 1
        return min(v, n - 1)


def make_frame(n):
    import pandas as pd

    rng = np.random.default_rng(3)
    return pd.DataFrame(dict(ra=rng.uniform(0, 10, n), dec=rng.uniform(0, 10, n), w=1.0 + np.arange(n), pid=np.arange(n) % 3))


class CatalogCreation(Harness):
    functions = (cat_mod.write_patches, cat_mod.WorkerManager.__init__, cat_mod.WorkerManager.get_comm, cat_mod.scatter_data_chunk,
                 cat_mod.chunk_processing_task, cat_mod.writer_task, cat_mod.load_patches, par.ranks_on_same_node, par.world_to_comm_rank,
                 Catalog.from_dataframe)
    xval = False

    def __init__(self, size, eager, wrong=None):
        self.size, self.eager, self.wrong = size, eager, wrong
        self.name = "catalog_creation.world%d.%s" % (size, "eager" if eager else "sync") + (".twin-" + wrong if wrong else "")
        self.bounds = ("world size %d, %s sends; 11 records in chunks of 4 over 3 patches; every wildcard-receive match of the writer "
                       "and of the patch-loading root chosen by the engine") % (size, "eager" if eager else "synchronous")
        self.must_fail = wrong is not None
        self.max_paths = 400 if size < 4 else 20000

    def make_inputs(self, eng):
        return {"_eng": eng}

    def concrete_inputs(self, m, inp):
        return {k: v for k, v in inp.items() if k != "_eng"}

    def body(self, inp):
        eng = inp.get("_eng") or _ReplayEngine(inp.get("choices", []))
        df = make_frame(11)
        tmp = tempfile.mkdtemp(prefix="c06_", dir=runner.ROOT + "/scratch")
        cache = os.path.join(tmp, "cat")

        def target(rank):
            c = Catalog.from_dataframe(cache, df, ra_name="ra", dec_name="dec", weight_name="w", patch_name="pid", chunksize=4)
            return {int(k): sorted(float(x) for x in p.load_data()["weights"]) for k, p in c.items()}

        try:
            out = run_world(eng, self.size, self.eager, target)
        finally:
            shutil.rmtree(tmp, ignore_errors=True)
        inp["choices"] = [c[2] for c in getattr(eng, "choices", [])] if hasattr(eng, "choices") else inp.get("choices", [])
        exp = {int(k): sorted(float(x) for x in g["w"]) for k, g in df.groupby("pid")}
        if self.wrong == "strict":
            exp = {}
        tag = "[%s]" % ("eager" if self.eager else "sync")
        root = out["results"].get(0)
        # cause of a loss: messages that were sent but never received (the writer stopped listening too early)
        cause = "[%s%s]" % ("eager" if self.eager else "sync", ",undelivered messages left when the writer stopped" if out.get("leftover") else "")
        return [Check("terminates" + tag, cond=(out["deadlock"] is None)),
                Check("no_rank_fails" + tag, cond=(not out["errors"])),
                Check("no_record_lost_between_reader_workers_writer" + cause, cond=(out["deadlock"] is not None or bool(out["errors"]) or root == exp)),
                Check("all_ranks_see_the_same_catalog" + tag, cond=(out["deadlock"] is not None or bool(out["errors"]) or all(
                    v == root for v in out["results"].values())))]


class ResultIO(Harness):
    functions = (par.bcast_instance, par.bcast_array, par.get_bcast_method)
    xval = False

    def __init__(self, size):
        self.size = size
        self.name = "bcast_and_result_io.world%d" % size
        self.bounds = "world size %d; CorrFunc.to_file/from_file, CorrData.to_files/from_files, HistData.from_catalog on all ranks" % size

    def make_inputs(self, eng):
        return {"_eng": eng, "eager": eng.choose(2, "eager_sends")}

    def concrete_inputs(self, m, inp):
        return {k: v for k, v in inp.items() if k != "_eng"}

    def body(self, inp):
        from yaw.binning import Binning
        from yaw.correlation.corrdata import CorrData
        from yaw.correlation.corrfunc import CorrFunc
        from yaw.correlation.paircounts import NormalisedCounts, PatchedCounts, PatchedSumWeights

        eng = inp.get("_eng") or _ReplayEngine(inp.get("choices", []))
        tmp = tempfile.mkdtemp(prefix="c06io_", dir=runner.ROOT + "/scratch")
        b = Binning([0.25, 0.5, 1.0])
        rng = np.random.default_rng(5)
        mk = lambda: NormalisedCounts(PatchedCounts(b, rng.integers(1, 9, (2, 3, 3)).astype(float), auto=False),
                                      PatchedSumWeights(b, rng.integers(1, 9, (2, 3)).astype(float), rng.integers(1, 9, (2, 3)).astype(float), auto=False))
        cf = CorrFunc(mk(), mk(), None, mk())

        def target(rank):
            cd = cf.sample()
            cf.to_file(tmp + "/cf.hdf5")
            back = CorrFunc.from_file(tmp + "/cf.hdf5")
            cd.to_files(tmp + "/nz")
            cd2 = CorrData.from_files(tmp + "/nz")
            return (bool(back == cf), bool(np.allclose(cd2.data, cd.data, atol=1e-6) and cd2.samples.shape == cd.samples.shape))

        try:
            out = run_world(eng, self.size, bool(inp["eager"]), target)
        finally:
            shutil.rmtree(tmp, ignore_errors=True)
        return [Check("terminates", cond=(out["deadlock"] is None)), Check("no_rank_fails", cond=(not out["errors"])),
                Check("every_rank_gets_the_roots_objects", cond=(out["deadlock"] is not None or bool(out["errors"]) or all(
                    v == (True, True) for v in out["results"].values()) and len(out["results"]) == self.size))]


def harnesses(tier):
    if tier == "quick":
        hs = [IterUnordered(2, 2), IterUnordered(3, 3), CatalogCreation(2, True), CatalogCreation(3, False), CatalogCreation(3, True), ResultIO(2)]
    else:
        hs = [IterUnordered(2, 3), IterUnordered(3, 4), IterUnordered(4, 4), CatalogCreation(2, True), CatalogCreation(2, False),
              CatalogCreation(3, False), CatalogCreation(3, True), CatalogCreation(4, False), ResultIO(2), ResultIO(3)]
    hs += [IterUnordered(2, 1, wrong="strict")]
    return hs


if __name__ == "__main__":
    sys.exit(
        runner.main(
            "C06",
            harnesses,
            level="model_checking",
            explanation="mpi4py is not installed, so the REAL MPI branches of yaw (selected at import time by a fake mpi4py put in "
            "place before yaw is imported) run in a simulated world: every rank is a thread executing the real entry point, "
            "communication primitives park the thread, and at quiescence the engine chooses which sender a wildcard receive "
            "matches (partial-order reduction: only real nondeterminism is a choice).  All schedules within the bounds are "
            "enumerated for eager and for synchronous send completion.  Obligations: no deadlock, no rank fails, every task "
            "executed exactly once, no record lost between reader, workers and writer, root's result equals the single-process "
            "result, all ranks agree.",
            assumptions=[
                "decided against the MPI standard's matching semantics only (non-overtaking per sender/receiver/tag/communicator, "
                "eager or synchronous completion of standard sends, collectives complete when all members entered); progress "
                "rules / buffer exhaustion of a real MPI library are outside the model",
                "a counterexample cannot be replayed on a real MPI runtime here; it is re-run deterministically in the simulated "
                "world with the recorded schedule and reported with that caveat",
                "world sizes 2-4, <= 4 tasks / 3 chunks; treecorr-based centre creation not covered",
            ],
            trusted_base=["z3 (enumeration of choices)", "vf.world scheduler semantics"],
            extra_evidence=lambda res: dict(states=max(1, res.stats["paths"]), transitions=max(1, res.stats["queries"]),
                                            traces_validated_against_impl=res.stats["xval"]),
        )
    )
