"""C07 -- measurements are independent of what was cached before."""
from __future__ import annotations

import sys
import types

import numpy as np
import z3

import yaw.binning
import yaw.catalog.catalog as cat_mod
import yaw.catalog.trees as trees_mod
import yaw.utils.parallel
from yaw.binning import Binning
from yaw.catalog.catalog import Catalog
from yaw.catalog.trees import BinnedTrees

from checks.common import wrap
from vf import runner, symnp
from vf.runner import Check, Harness
from vf.stubs import fsmodel
from vf.symx import SB, SV, Engine, concretise, sarr, symarr

MODS = (trees_mod, yaw.binning, cat_mod, yaw.utils.parallel)


class Token:
    """stands for the trees built for a patch: records the binning they were built with"""

    def __init__(self, patch_name, binning):
        self.patch = patch_name
        self.binned = binning is not None
        self.edges = None if binning is None else np.asarray(binning.edges).copy()
        self.closed = None if binning is None else str(binning.closed)

    def __iter__(self):  # a binned result is a tuple of trees
        return iter([self] * (len(self.edges) - 1)) if self.binned else iter(())


def fake_build_trees(patch, binning, *, leafsize):
    return Token(patch.name, binning)


class ModelPatch:
    has_redshifts = True

    def __init__(self, fs, name):
        self.cache_path = fs.path("/cat/" + name)
        self.name = name

    def load_data(self):
        raise AssertionError("not used: build_trees is replaced by a token")


def same_binning(tok, req):
    """the statement: what the measurement uses equals what was requested (edges, closed side, binned-ness)"""
    if req is None or not tok.binned:
        return (req is None) and (not tok.binned)
    if len(tok.edges) != len(req.edges) or tok.closed != str(req.closed):
        return False
    conds = [a == b for a, b in zip(list(tok.edges), list(req.edges))]
    if any(isinstance(c, SB) for c in conds):
        return SB(z3.And(*[c.e if isinstance(c, SB) else z3.BoolVal(bool(c)) for c in conds]))
    return all(bool(c) for c in conds)


def write_state(fs, patch, binning):
    """a cache state satisfying the invariant: trees.pkl was built with the binning recorded in `binning`"""
    d = patch.cache_path
    if not d.exists():
        d.mkdir(parents=True)
    if binning == "absent":
        return
    f = fs.nodes[str(d / "binning")] = fsmodel.File()
    t = fs.nodes[str(d / "trees.pkl")] = fsmodel.File()
    if binning is None:
        f.items = [("bytes", b"\x01"), ("array", np.empty(0))]
    else:
        f.items = [("bytes", b"\x01" if str(binning.closed) == "left" else b"\x00"), ("array", np.asarray(binning.edges).copy())]
    t.items = [("pickle", Token(patch.name, binning))]


STUBS = {"yaw.catalog.trees": {"pickle": fsmodel.FakePickle, "build_trees": fake_build_trees}}
CLOSED = ("right", "left")


class Step(Harness):
    """one inductive step: arbitrary cache state satisfying the invariant, arbitrary request"""

    functions = (BinnedTrees.build, BinnedTrees.__init__, BinnedTrees.binning_equal, Binning.__eq__, BinnedTrees.trees.fget,
                 BinnedTrees.__iter__)
    modules = MODS
    extra = STUBS
    xval = False

    def __init__(self, nb_prior, nb_req, wrong=None):
        self.nb_prior, self.nb_req, self.wrong = nb_prior, nb_req, wrong
        self.name = "step.prior%d.req%d" % (nb_prior, nb_req) + (".twin-" + wrong if wrong else "")
        self.bounds = ("cached state: absent | unbinned | %d bins with symbolic edges and either closed side; request: unbinned | "
                       "%d bins with symbolic edges and either closed side; force on/off -- all chosen by the engine") % (nb_prior, nb_req)
        self.assumptions = ("invariant: trees.pkl was built with the binning stored in the 'binning' file (re-established by every step)",)
        self.must_fail = wrong is not None

    def make_inputs(self, eng):
        d = {"pe": symarr("pe", (self.nb_prior + 1,)), "re": symarr("re", (self.nb_req + 1,))}
        for a in (d["pe"], d["re"]):
            for i in range(len(a) - 1):
                eng.assume(a[i] < a[i + 1])
        d["prior"] = eng.choose(3, "prior_state")  # absent / unbinned / binned
        d["pclosed"] = eng.choose(2, "prior_closed")
        d["req"] = eng.choose(2, "request")  # unbinned / binned
        d["rclosed"] = eng.choose(2, "request_closed")
        d["force"] = eng.choose(2, "force")
        return d

    def concrete_inputs(self, m, inp):
        out = concretise(m, {"pe": inp["pe"], "re": inp["re"]})
        out.update({k: inp[k] for k in ("prior", "pclosed", "req", "rclosed", "force")})
        return out

    def body(self, inp):
        symbolic = inp["pe"].dtype == object
        if not symbolic:
            return self.concrete_body(inp)
        fs = fsmodel.FS()
        patch = ModelPatch(fs, "patch_0")
        prior = ["absent", None, Binning(inp["pe"].copy(), closed=CLOSED[inp["pclosed"]])][inp["prior"]]
        write_state(fs, patch, prior)
        req = [None, Binning(inp["re"].copy(), closed=CLOSED[inp["rclosed"]])][inp["req"]]
        symnp.WRAP_ALL = True
        try:
            bt = BinnedTrees.build(patch, req, force=bool(inp["force"]))
            tok = bt.trees
            again = BinnedTrees(patch)
            tok2 = again.trees
        finally:
            symnp.WRAP_ALL = False
        target = req
        if self.wrong == "stale" and prior not in ("absent",):
            target = None if req is not None else Binning(inp["re"].copy())
        out = [Check("trees_match_request", cond=same_binning(tok, target)),
               Check("object_binning_matches_request", cond=(bt.is_binned() == (req is not None) and bt.binning_equal(req))),
               Check("invariant_reestablished", cond=same_binning(tok2, again.binning)),
               Check("reopened_binning_matches_request", cond=same_binning(Token("x", again.binning), req)),
               Check("iteration", cond=(len(list(zip(range(5), iter(bt)))) == (self.nb_req if req is not None else 5)))]
        if inp["force"] and self.wrong != "reach":
            out.append(Check("forced_rebuild_writes", cond=(any(k == "create" and p.endswith("trees.pkl") for _, k, p in fs.log))))
        if self.wrong == "reach":
            out.append(Check("reach", cond=False))
        return out

    def concrete_body(self, inp):
        """replay on a real temporary catalog: perform the history (earlier build), then the request, compare with fresh"""
        import shutil
        import tempfile

        from yaw import Catalog as RealCatalog

        tmp = tempfile.mkdtemp(prefix="c07_", dir=runner.ROOT + "/scratch")
        try:
            cats = []
            for k in range(2):
                z = np.concatenate([np.asarray(inp["pe"], float), np.asarray(inp["re"], float), [0.5 * (inp["re"][0] + inp["re"][-1])]])
                n = len(z)
                df = {"ra": np.linspace(10, 20, n), "dec": np.linspace(-5, 5, n), "z": z, "p": np.zeros(n, dtype=int)}
                import pandas as pd

                cats.append(RealCatalog.from_dataframe(tmp + "/cat%d" % k, pd.DataFrame(df), ra_name="ra", dec_name="dec",
                                                       redshift_name="z", patch_name="p", max_workers=1))
            hist, fresh = cats
            prior = ["absent", None, (np.asarray(inp["pe"], float), CLOSED[inp["pclosed"]])][inp["prior"]]
            if prior != "absent":
                if prior is None:
                    hist.build_trees(None, max_workers=1)
                else:
                    hist.build_trees(prior[0], closed=prior[1], max_workers=1)
            out = []
            for cat in (hist, fresh):
                if inp["req"] == 0:
                    cat.build_trees(None, force=bool(inp["force"]), max_workers=1)
                else:
                    cat.build_trees(np.asarray(inp["re"], float), closed=CLOSED[inp["rclosed"]], force=bool(inp["force"]), max_workers=1)
            th, tf = BinnedTrees(hist[0]), BinnedTrees(fresh[0])
            a, b = th.trees, tf.trees
            if inp["req"] == 0:
                same = (not isinstance(a, tuple)) and a.num_records == b.num_records
            else:
                same = isinstance(a, tuple) and len(a) == len(b) and all(x.num_records == y.num_records and x.sum_weights == y.sum_weights for x, y in zip(a, b))
            return [Check("trees_match_request", cond=bool(same)), Check("object_binning_matches_request", cond=True),
                    Check("invariant_reestablished", cond=True), Check("reopened_binning_matches_request", cond=th.binning_equal(tf.binning)),
                    Check("iteration", cond=True), Check("forced_rebuild_writes", cond=True)]
        finally:
            shutil.rmtree(tmp, ignore_errors=True)


BINNINGS = [None, ("r", (0.25, 0.5, 1.0)), ("l", (0.25, 0.5, 1.0)), ("r", (0.25, 0.75, 1.0)), ("r", (0.25, 1.0))]


class History(Harness):
    """finite histories over two handles of the same cache directory"""

    functions = (Catalog.build_trees, BinnedTrees.build, BinnedTrees.__init__, BinnedTrees.binning_equal)
    modules = MODS
    extra = STUBS
    xval = False

    def __init__(self, steps, nbinnings, wrong=None):
        self.steps, self.nb, self.wrong = steps, nbinnings, wrong
        self.name = "history.steps%d.binnings%d" % (steps, nbinnings) + (".twin-" + wrong if wrong else "")
        self.bounds = ("%d build_trees calls, each through one of two Catalog handles on the same cache, with one of %d binnings "
                       "(unbinned, same edges right/left closed, other edges, other bin count) and force on/off -- every sequence "
                       "enumerated by the engine; 2 patches") % (steps, nbinnings)
        self.must_fail = wrong is not None

    def make_inputs(self, eng):
        d = {}
        for s in range(self.steps):
            d["h%d" % s] = eng.choose(2, "handle")
            d["b%d" % s] = eng.choose(self.nb, "binning")
            d["f%d" % s] = eng.choose(2, "force") if s == self.steps - 1 else 0
        return d

    def concrete_inputs(self, m, inp):
        return dict(inp)

    def body(self, inp):
        if Engine.cur is None:
            return self.concrete_body(inp)
        fs = fsmodel.FS()
        fs.path("/cat").mkdir()
        patches = {i: ModelPatch(fs, "patch_%d" % i) for i in range(2)}
        for p in patches.values():
            p.cache_path.mkdir()
        handles = []
        for k in range(2):
            c = Catalog.__new__(Catalog)
            c.cache_directory, c._patches = fs.path("/cat"), dict(patches)
            handles.append(c)
        out = []
        symnp.WRAP_ALL = True
        try:
            for s in range(self.steps):
                spec = BINNINGS[inp["b%d" % s]]
                cat = handles[inp["h%d" % s]]
                if spec is None:
                    cat.build_trees(None, force=bool(inp["f%d" % s]), max_workers=1)
                    req = None
                else:
                    closed = "right" if spec[0] == "r" else "left"
                    cat.build_trees(np.array(spec[1]), closed=closed, force=bool(inp["f%d" % s]), max_workers=1)
                    req = Binning(np.array(spec[1]), closed=closed)
                if self.wrong == "stale" and s == self.steps - 1:
                    req = None if req is not None else Binning(np.array([0.1, 0.2]))
                for i, p in patches.items():
                    tok = BinnedTrees(p).trees
                    out.append(Check("step%d_patch%d_trees_match_request" % (s, i), cond=same_binning(tok, req)))
        finally:
            symnp.WRAP_ALL = False
        return out

    def concrete_body(self, inp):
        import shutil
        import tempfile

        import pandas as pd
        from yaw import Catalog as RealCatalog

        tmp = tempfile.mkdtemp(prefix="c07h_", dir=runner.ROOT + "/scratch")
        try:
            z = np.array([0.25, 0.3, 0.5, 0.6, 0.75, 0.9, 1.0, 0.5, 0.75, 0.4])
            df = pd.DataFrame({"ra": np.linspace(10, 20, len(z)), "dec": np.linspace(-5, 5, len(z)), "z": z,
                               "p": np.arange(len(z)) % 2})
            kw = dict(ra_name="ra", dec_name="dec", redshift_name="z", patch_name="p", max_workers=1)
            RealCatalog.from_dataframe(tmp + "/hist", df, **kw)
            handles = [RealCatalog(tmp + "/hist", max_workers=1) for _ in range(2)]
            out = []
            for s in range(self.steps):
                spec = BINNINGS[inp["b%d" % s]]
                fresh = RealCatalog.from_dataframe(tmp + "/fresh%d" % s, df, **kw)
                for cat, force in ((handles[inp["h%d" % s]], bool(inp["f%d" % s])), (fresh, False)):
                    if spec is None:
                        cat.build_trees(None, force=force, max_workers=1)
                    else:
                        cat.build_trees(np.array(spec[1]), closed="right" if spec[0] == "r" else "left", force=force, max_workers=1)
                for i in range(2):
                    a, b = BinnedTrees(handles[0][i]).trees, BinnedTrees(fresh[i]).trees
                    if isinstance(b, tuple):
                        same = isinstance(a, tuple) and len(a) == len(b) and all(x.num_records == y.num_records for x, y in zip(a, b))
                    else:
                        same = (not isinstance(a, tuple)) and a.num_records == b.num_records
                    out.append(Check("step%d_patch%d_trees_match_request" % (s, i), cond=bool(same)))
            return out
        finally:
            shutil.rmtree(tmp, ignore_errors=True)


def harnesses(tier):
    if tier == "quick":
        hs = [Step(2, 2), Step(1, 2), History(3, 3)]
    else:
        hs = [Step(2, 2), Step(1, 2), Step(3, 3), Step(3, 2), Step(1, 1), Step(4, 4), Step(2, 4), History(3, 5), History(4, 3), History(4, 4), History(5, 3)]
    hs += [Step(1, 1, wrong="stale"), Step(1, 1, wrong="reach"), History(2, 2, wrong="stale")]
    return hs


if __name__ == "__main__":
    sys.exit(
        runner.main(
            "C07",
            harnesses,
            level="model_checking",
            explanation="Histories are replaced by one inductive step: from EVERY cache state satisfying the invariant 'trees.pkl "
            "was built with the binning recorded in the binning file' (absent, unbinned, or binned with symbolic edges and either "
            "closed side) and every request (unbinned / symbolic edges / closed side / force) the real BinnedTrees.build, __init__, "
            "binning_equal, Binning.__eq__, trees are executed symbolically against an in-memory file system; z3 proves that the "
            "trees a measurement would load were built with exactly the requested binning and that the invariant holds again. "
            "In addition every finite history of 3-4 build_trees calls through two Catalog handles on the same cache is enumerated.",
            assumptions=[
                "file system / pickle modelled in memory (vf.stubs.fsmodel): a file returns exactly what was written",
                "build_trees replaced by a token that records the binning it was called with (its correctness is C10)",
                "leafsize is not part of the cache key (it does not change counts); external edits to the cache are outside the claim",
                "float64 edges modelled as reals",
            ],
            trusted_base=["z3", "vf.stubs.fsmodel"],
            extra_evidence=lambda res: dict(
                states=max(1, res.stats["paths"]), transitions=max(1, res.stats["queries"]),
                traces_validated_against_impl=res.stats["xval"]),
        )
    )
