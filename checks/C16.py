"""C16 -- random catalogs: exact size, footprint, joint attributes, reproducible by seed."""
from __future__ import annotations

import math
import os
import sys

import numpy as np
import z3

import yaw.datachunk
import yaw.randoms as randoms_mod
from yaw.randoms import BoxRandoms, RandomsBase

from checks.common import vec, wrap
from vf import runner, uf
from vf.runner import Check, Harness
from vf.symx import SB, SV, Engine, concretise, sarr, sym, symarr

HARNESS = os.path.join(runner.ROOT, "harness", "ch_readers.py")
MODS = (randoms_mod, yaw.datachunk)


def same_term(a, b):
    r = a == b
    if isinstance(r, SB):
        return bool(z3.is_true(z3.simplify(r.e)))
    return bool(r)


def same_chunk(a, b):
    if a.dtype.names != b.dtype.names or len(a) != len(b):
        return False
    return all(same_term(a[n][i], b[n][i]) for n in a.dtype.names for i in range(len(a)))


class Window(Harness):
    functions = (BoxRandoms.__init__, BoxRandoms._sky2cylinder, BoxRandoms._cylinder2sky, BoxRandoms._draw_coords,
                 RandomsBase.__call__, RandomsBase.reseed)
    modules = MODS
    xval = False

    def __init__(self, n, wrong=None):
        self.n, self.wrong = n, wrong
        self.name = "box.window.n%d" % n + (".twin-" + wrong if wrong else "")
        self.bounds = "%d points; window limits symbolic (degrees), incl. the poles" % n
        self.assumptions = ("0 <= ra_min <= ra_max <= 360, -90 <= dec_min <= dec_max <= 90",)
        self.must_fail = wrong is not None

    def make_inputs(self, eng):
        d = {k: sym(k) for k in ("ra_min", "ra_max", "dec_min", "dec_max")}
        eng.assume((d["ra_min"] >= 0) & (d["ra_min"] <= d["ra_max"]) & (d["ra_max"] <= 360))
        eng.assume((d["dec_min"] >= -90) & (d["dec_min"] <= d["dec_max"]) & (d["dec_max"] <= 90))
        return d

    def body(self, inp):
        with uf.light_trig():
            return self._body(inp)

    def _body(self, inp):
        symbolic = isinstance(inp["ra_min"], SV)
        g = BoxRandoms(inp["ra_min"], inp["ra_max"], inp["dec_min"], inp["dec_max"], seed=7)
        chunk = g(self.n)
        pi = uf.pi() if symbolic else math.pi
        f = pi / 180
        out = [Check("size", cond=(len(chunk) == self.n)), Check("fields", cond=(chunk.dtype.names == ("ra", "dec")))]
        lo_ra, hi_ra, lo_dec, hi_dec = inp["ra_min"] * f, inp["ra_max"] * f, inp["dec_min"] * f, inp["dec_max"] * f
        if self.wrong == "narrow":
            hi_dec = (inp["dec_min"] + inp["dec_max"]) / 2 * f
        tol = 0 if symbolic else 1e-12
        for i in range(self.n):
            out.append(Check("ra_inside_%d" % i, cond=[chunk["ra"][i] >= lo_ra - tol, chunk["ra"][i] <= hi_ra + tol]))
            out.append(Check("dec_inside_%d" % i, cond=[chunk["dec"][i] >= lo_dec - tol, chunk["dec"][i] <= hi_dec + tol]))
        return out


class Joint(Harness):
    functions = (RandomsBase._draw_attributes, RandomsBase.get_data_size, RandomsBase.__call__, RandomsBase.__init__)
    modules = MODS
    xval = False

    def __init__(self, n, m, wrong=None):
        self.n, self.m, self.wrong = n, m, wrong
        self.name = "attributes.joint.n%d.m%d" % (n, m) + (".twin-" + wrong if wrong else "")
        self.bounds = "%d points drawn from %d (weight, redshift) source rows with symbolic values; which attributes exist chosen by the engine" % (n, m)
        self.must_fail = wrong is not None

    def make_inputs(self, eng):
        return {"w": symarr("w", (self.m,)), "z": symarr("z", (self.m,)), "has": 1 + eng.choose(3, "attributes")}

    def concrete_inputs(self, m, inp):
        out = concretise(m, {"w": inp["w"], "z": inp["z"]})
        out["has"] = inp["has"]
        return out

    def body(self, inp):
        with uf.light_trig():
            return self._body(inp)

    def _body(self, inp):
        symbolic = inp["w"].dtype == object
        has_w, has_z = bool(inp["has"] & 1), bool(inp["has"] & 2)
        g = BoxRandoms(10.0, 20.0, -5.0, 5.0, weights=inp["w"] if has_w else None, redshifts=inp["z"] if has_z else None, seed=3)
        chunk = g(self.n)
        names = ("ra", "dec") + (("weights",) if has_w else ()) + (("redshifts",) if has_z else ())
        out = [Check("size", cond=(len(chunk) == self.n)), Check("fields", cond=(chunk.dtype.names == names))]
        for i in range(self.n):
            rows = []
            for k in range(self.m):
                c = []
                if has_w:
                    c.append(chunk["weights"][i] == inp["w"][k])
                if has_z:
                    c.append(chunk["redshifts"][i] == inp["z"][(k + 1) % self.m if self.wrong == "shift" else k])
                rows.append(c)
            if symbolic:
                f = z3.Or(*[z3.And(*[x.e if isinstance(x, SB) else z3.BoolVal(bool(x)) for x in c]) for c in rows])
                out.append(Check("same_source_row_%d" % i, cond=SB(f)))
            else:
                out.append(Check("same_source_row_%d" % i, cond=any(all(bool(x) for x in c) for c in rows)))
        if has_w and has_z:
            try:
                BoxRandoms(10.0, 20.0, -5.0, 5.0, weights=inp["w"], redshifts=inp["z"][:-1])
                out.append(Check("length_mismatch_rejected", cond=False))
            except ValueError:
                out.append(Check("length_mismatch_rejected", cond=True))
        return out


class Reproducible(Harness):
    functions = (RandomsBase.reseed, RandomsBase.__call__, BoxRandoms._draw_coords, RandomsBase._draw_attributes)
    modules = MODS
    xval = False

    def __init__(self, wrong=None):
        self.wrong = wrong
        self.name = "reproducible.by_seed" + (".twin-" + wrong if wrong else "")
        self.bounds = ("one generator with attributes; history: draw a, arbitrary extra use (0-1 draws of engine-chosen sizes, "
                       "0-1 extra reseeds), reseed, draw again; a second generator with the same seed")
        self.must_fail = wrong is not None

    def make_inputs(self, eng):
        return {"w": symarr("w", (2,)), "extra_draws": eng.choose(2, "extra_draws"), "extra_reseeds": eng.choose(2, "extra_reseeds"),
                "size2": 1 + eng.choose(2, "size_of_extra_draw")}

    def concrete_inputs(self, m, inp):
        out = concretise(m, {"w": inp["w"]})
        out.update({k: inp[k] for k in ("extra_draws", "extra_reseeds", "size2")})
        return out

    def body(self, inp):
        with uf.light_trig():
            return self._body(inp)

    def _body(self, inp):
        symbolic = inp["w"].dtype == object
        mk = lambda seed: BoxRandoms(10.0, 20.0, -5.0, 5.0, weights=inp["w"], seed=seed)
        g = mk(11)
        a = g(1)
        for _ in range(inp["extra_draws"]):
            g(inp["size2"])
        for _ in range(inp["extra_reseeds"]):
            g.reseed()
            g(1)
        g.reseed()
        b = g(1)
        h = mk(11 if self.wrong != "seed" else 12)
        c = h(1)
        g.reseed(99)
        d1 = g(1)
        g.reseed()
        d2 = g(1)
        e = mk(99)(1)
        if symbolic:
            eq = same_chunk
        else:
            eq = lambda x, y: x.dtype == y.dtype and all(np.array_equal(x[n], y[n]) for n in x.dtype.names)
        return [Check("reseed_reproduces_first_draw", cond=eq(a, b)),
                Check("fresh_generator_same_seed", cond=eq(a, c)),
                Check("new_seed_is_stored", cond=(eq(d1, d2) and eq(d1, e))),
                Check("other_seed_differs", cond=(not eq(a, d1)) or not symbolic)]


def harnesses(tier):
    hs = [Window(2), Joint(2, 2), Reproducible()]
    if tier == "thorough":
        hs += [Window(3), Window(4), Joint(2, 3), Joint(3, 2), Joint(3, 3)]
    hs += [Window(1, wrong="narrow"), Joint(1, 2, wrong="shift"), Reproducible(wrong="seed")]
    return hs


def pre(res, tier):
    runner.run_crosshair(res, "C16", HARNESS, names=["random_reader", "random_probe_then_pass", "random_probe_too_large"],
                         twins=[], timeout_s=120 if tier == "quick" else 480)


if __name__ == "__main__":
    sys.exit(
        runner.main(
            "C16",
            harnesses,
            pre=pre,
            level="other",
            explanation="Sizes: CrossHair executes the real RandomReader (constructor, iteration, get_probe) symbolically over "
            "the requested size, chunk size and probe size and confirms that the generator is asked for exactly the requested "
            "number of points in chunks <= chunksize and is reseeded once per pass.  Footprint / joint attributes / "
            "reproducibility: the real BoxRandoms and RandomsBase run symbolically with numpy's SeedSequence/default_rng replaced "
            "by a deterministic-stream model whose draws are symbols named by (stream, draw ordinal, position): z3 proves window "
            "containment incl. the poles, that weight and redshift of a point come from the same source row, and that a reseeded "
            "or fresh generator with the same seed produces identical terms after every engine-enumerated usage history.",
            assumptions=[
                "UNIFORMITY IN AREA is a statement about a distribution and is NOT decided here (not encodable); HealPixRandoms "
                "not covered (healpy is not installed)",
                "numpy's PCG64 stream replaced by the rngstream contract (vf/stubs/rng.py): deterministic per (entropy, spawn index), "
                "uniform in [lo,hi), integers in [lo,hi), SeedSequence.spawn counts children",
                "float64 modelled as reals; sin/arcsin as axiomatised uninterpreted functions",
            ],
            trusted_base=["z3", "CrossHair", "vf.stubs.rng", "vf.uf trig axioms"],
        )
    )
