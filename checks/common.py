"""Shared builders for harnesses (dual mode: symbolic object arrays or float arrays)."""
from __future__ import annotations

import numpy as np
import z3

import yaw.binning
import yaw.correlation.corrdata
import yaw.correlation.corrfunc
import yaw.correlation.paircounts
import yaw.redshifts
from yaw.binning import Binning
from yaw.correlation.corrfunc import CorrFunc
from yaw.correlation.paircounts import NormalisedCounts, PatchedCounts, PatchedSumWeights

from vf.symx import SV, symarr, sym

CORR_MODULES = (
    yaw.binning,
    yaw.correlation.paircounts,
    yaw.correlation.corrfunc,
    yaw.correlation.corrdata,
    yaw.redshifts,
)


def conc_binning(nbins, closed="right"):
    return Binning(0.25 + 0.25 * np.arange(nbins + 1), closed=closed)  # dyadic: exact in float and in the model


def sym_counts(tag, B, P, auto):
    """symbolic inputs of one NormalisedCounts: counts (B,P,P), w1 (B,P), w2 (B,P)"""
    d = {tag + "_c": symarr(tag + "c", (B, P, P)), tag + "_w1": symarr(tag + "u", (B, P))}
    if not auto:
        d[tag + "_w2"] = symarr(tag + "v", (B, P))
    return d


def build_counts(inp, tag, binning, auto):
    C = inp[tag + "_c"]
    w1 = inp[tag + "_w1"]
    w2 = w1 if auto else inp[tag + "_w2"]
    return NormalisedCounts(
        PatchedCounts(binning, C.copy(), auto=auto), PatchedSumWeights(binning, w1.copy(), w2.copy(), auto=auto)
    )


def drop_patch(inp, tag, k, auto):
    """the same inputs with patch k removed from all arrays"""
    out = {}
    C = inp[tag + "_c"]
    idx = [i for i in range(C.shape[1]) if i != k]
    out[tag + "_c"] = C[:, idx][:, :, idx]
    out[tag + "_w1"] = inp[tag + "_w1"][:, idx]
    if not auto:
        out[tag + "_w2"] = inp[tag + "_w2"][:, idx]
    return out


def total_counts(C, b, skip=None):
    P = C.shape[1]
    idx = [i for i in range(P) if i != skip]
    s = 0
    for i in idx:
        for j in idx:
            s = s + C[b, i, j]
    return s


def total_weights(w1, w2, b, auto, skip=None):
    P = w1.shape[1]
    idx = [i for i in range(P) if i != skip]
    s = 0
    for i in idx:
        for j in idx:
            if auto:
                if i < j:
                    s = s + w1[b, i] * w2[b, j]
                elif i == j:
                    s = s + w1[b, i] * w2[b, j] * 0.5
            else:
                s = s + w1[b, i] * w2[b, j]
    return s


def normalised(inp, tag, b, auto, skip=None):
    w1 = inp[tag + "_w1"]
    w2 = w1 if auto else inp[tag + "_w2"]
    return total_counts(inp[tag + "_c"], b, skip) / total_weights(w1, w2, b, auto, skip)


def vec(f, n):
    """build a 1-d array from f(i) in whichever mode the values are"""
    vals = [f(i) for i in range(n)]
    if any(isinstance(v, SV) for v in vals):
        from vf.symx import sarr

        return sarr(vals)
    return np.array(vals, dtype=float)


def mat(f, n, m):
    vals = [[f(i, j) for j in range(m)] for i in range(n)]
    if any(isinstance(v, SV) for row in vals for v in row):
        from vf.symx import sarr

        return sarr(vals)
    return np.array(vals, dtype=float)


def is_sym(x):
    from vf.symx import is_symbolic

    return is_symbolic(x) or isinstance(x, SV)


def wrap(a):
    """keep derived arrays analysable: object arrays become SArr (astype(float) is then a no-op)"""
    a = np.asarray(a) if not isinstance(a, np.ndarray) else a
    if a.dtype == object:
        from vf.symx import SArr

        return a.view(SArr)
    return a


def cat(*arrs, axis=0):
    return wrap(np.concatenate(arrs, axis=axis))


def member_auto(tag, auto):
    """in an autocorrelation measurement DD and RR are autocorrelation containers, DR / RD pair two different catalogs"""
    return bool(auto) and tag.split("_")[-1] in ("dd", "rr")
