class FStr(str):
    def __new__(cls, tok, meta): 
        o = str.__new__(cls, tok); o.meta = meta; return o
    def __len__(self): return self.meta["len"]
    def split(self, sep=None): return ["INT" * 1, "FRAC"]
    def __getitem__(self, k): return ("sliced", k)
    def __contains__(self, s): return False
class V:
    def __format__(self, spec): return FStr("\x00tok1\x00", dict(len=13, spec=spec))
v = V()
s = f"{v: .{10}f}"
print(type(s), repr(str.__str__(s)), len(s), "nan" in s, s.split("."), s[:10], s.meta)
print(repr(" ".join([s, s])))
