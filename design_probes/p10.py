import time, z3, numpy as np, itertools
from symcore import *
from symcore import _z
import yaw.catalog.trees as trees, yaw.coordinates as coordinates
from yaw.catalog.trees import AngularTree

R = z3.RealSort()
UF = {n: z3.Function(n, R, R) for n in ("log10", "pow10", "sinh")}   # sinh = sin on [0, pi/2]
def ap(name, x): return SV(UF[name](_z(x)))
SV.__rpow__ = lambda self, base: ap("pow10", self) if base == 10.0 else (_ for _ in ()).throw(Unsupported("rpow"))
SV.__abs__ = lambda self: SV(z3.If(self.e >= 0, self.e, -self.e))
def vec(f):
    def g(a):
        a = np.asarray(a, dtype=object); out = np.empty(a.shape, dtype=object)
        for i in np.ndindex(*a.shape): out[i] = f(a[i])
        return out.view(SArr)
    return g
def sort1(vals):
    vals = list(vals)
    for i in range(1, len(vals)):       # insertion sort with forking comparisons
        j = i
        while j > 0 and bool(vals[j] < vals[j-1]):
            vals[j], vals[j-1] = vals[j-1], vals[j]; j -= 1
    return vals
class Shim:
    def __getattr__(self, k): return getattr(np, k)
    def atleast_1d(self, a): return np.atleast_1d(np.asarray(a, dtype=object)).view(SArr)
    def any(self, a):
        for v in np.asarray(a, dtype=object).ravel():
            if v: return True
        return False
    def log10(self, a): return vec(lambda x: ap("log10", x))(a)
    def sin(self, a): return vec(lambda x: ap("sinh", x))(a)
    def linspace(self, lo, hi, n):
        return np.array([lo + (hi - lo) * (z3.RealVal(i) / (n - 1)) if False else lo + (hi - lo) * SV(z3.RealVal(i) / (n - 1)) for i in range(n)], dtype=object).view(SArr)
    def unique(self, a):
        s = sort1(np.asarray(a, dtype=object).ravel()); out = []
        for v in s:
            if not out or not bool(v == out[-1]): out.append(v)
        return np.array(out, dtype=object).view(SArr)
    def sort(self, a): return np.array(sort1(a), dtype=object).view(SArr)
    def zeros(self, n): return np.array([SV(z3.RealVal(0))]*n, dtype=object).view(SArr)
    def zeros_like(self, a): return self.zeros(len(a))
    def abs(self, a): return vec(abs)(a)
    def argmin(self, a):
        best = 0
        for i in range(1, len(a)):
            if bool(a[i] < a[best]): best = i
        return best
shim = Shim(); trees.np = shim; coordinates.np = shim

class SpecTree:
    def __init__(self, D=None): self.D = D
    def count_neighbors(self, other, r, weights, cumulative):
        w1, w2 = weights; out = []
        n1, n2 = self.D.shape
        for k in range(len(r)):
            tot = z3.RealVal(0)
            for i in range(n1):
                for j in range(n2):
                    w = (_z(w1[i]) if w1 is not None else 1) * (_z(w2[j]) if w2 is not None else 1)
                    c = self.D[i, j].e <= r[k].e
                    if not cumulative and k > 0: c = z3.And(r[k-1].e < self.D[i, j].e, c)
                    tot = tot + z3.If(c, w, 0)
            out.append(SV(tot))
        return np.array(out, dtype=object).view(SArr)

def mktree(tree, w, n):
    t = AngularTree.__new__(AngularTree); t.tree = tree; t.weights = w; t.num_records = n; t.sum_weights = None
    return t

def axioms(terms_formulas):
    """instantiate monotonic + inverse axioms for all UF applications found"""
    apps = {n: set() for n in UF}
    def walk(e, seen):
        if e.get_id() in seen: return
        seen.add(e.get_id())
        if z3.is_app(e):
            n = e.decl().name()
            if n in UF and e.num_args() == 1: apps[n].add(e.arg(0))
            for c in e.children(): walk(c, seen)
    seen = set()
    for f in terms_formulas: walk(f, seen)
    ax = []
    for n in ("log10", "pow10", "sinh"):
        args = list(apps[n])
        for a, b in itertools.combinations(args, 2):
            ax.append((a < b) == (UF[n](a) < UF[n](b))); ax.append((b < a) == (UF[n](b) < UF[n](a)))
    for a in apps["pow10"]:
        ax.append(UF["pow10"](a) > 0)
        # inverse: if a is log10(x) then pow10(a) == x
        if z3.is_app(a) and a.decl().name() == "log10": ax.append(UF["pow10"](a) == a.arg(0))
    return ax

N1, N2, S = 1, 2, int(__import__("sys").argv[1]) if len(__import__("sys").argv) > 1 else 1
def run(eng):
    theta = symarr("th", (N1, N2)); w1 = symarr("w", (N1,)); w2 = symarr("v", (N2,))
    D = np.empty((N1, N2), dtype=object)
    for i in np.ndindex(N1, N2): D[i] = 2.0 * ap("sinh", theta[i] / 2.0)
    amin = symarr("amin", (S,)); amax = symarr("amax", (S,))
    pre = [z3.And(t.e >= 0, t.e <= UF["log10"](1) * 0 + 3.2) for t in theta.ravel()]  # theta in [0, pi]-ish
    pre += [a.e > 0 for a in amin]
    t1 = mktree(SpecTree(D), w1, N1); t2 = mktree(SpecTree(), w2, N2)
    res = t1.count(t2, amin, amax)
    obl = []
    for s in range(S):
        exp = z3.Sum([z3.If(z3.And(amin[s].e < theta[i, j].e, theta[i, j].e <= amax[s].e), w1[i].e * w2[j].e, 0) for i in range(N1) for j in range(N2)])
        obl.append((f"scale{s}", _z(res[s]) == exp))
    return pre, obl
t = time.time()
eng, results = explore(run, max_paths=5000)
from collections import Counter
print("paths", len(results), Counter(r[0] for r in results), "explore %.1fs" % (time.time() - t))
ok = bad = unk = 0; st = 0
for status, trace, out in results:
    if status != "ok":
        continue
    pre, obl = out
    pcs = [c if t_ else z3.Not(c) for c, t_ in trace]
    for name, f in obl:
        ax = axioms(pcs + pre + [f])
        s = z3.Solver(); s.set("timeout", 20000); s.add(*pcs, *pre, *ax, z3.Not(f))
        t0 = time.time(); r = s.check(); st += time.time() - t0
        if r == z3.unsat: ok += 1
        elif r == z3.sat:
            bad += 1
            if bad <= 2: print("SAT", name, s.model())
        else: unk += 1
print("discharged", ok, "sat", bad, "unknown", unk, "solver %.1fs" % st, "total %.1fs" % (time.time() - t))
