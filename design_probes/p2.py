import time, z3, numpy as np
from symcore import *
from yaw.binning import Binning
from yaw.correlation.paircounts import PatchedCounts, PatchedSumWeights, NormalisedCounts
from yaw.correlation.corrfunc import CorrFunc

B, P = 2, 3
binning = Binning([0.1, 0.2, 0.3])
def run(eng):
    C = symarr("c", (B,P,P))
    pc = PatchedCounts(binning, C, auto=False)
    sd = pc.sample_patch_sum()
    obl = []
    for k in range(P):
        for b in range(B):
            oracle = sum((C[b,i,j] for i in range(P) for j in range(P) if i!=k and j!=k), 0)
            obl.append(("pc k%d b%d"%(k,b), (sd.samples[k][b] == oracle).e))
    w1 = symarr("w1", (B,P)); w2 = symarr("w2", (B,P))
    for auto in (False, True):
        sw = PatchedSumWeights(binning, w1, w1 if auto else w2, auto=auto)
        s2 = sw.sample_patch_sum()
        for k in range(P):
            for b in range(B):
                if auto:
                    oracle = sum((w1[b,i]*w1[b,j] for i in range(P) for j in range(P) if i<j and i!=k and j!=k), 0) \
                           + sum((w1[b,i]*w1[b,i]*0.5 for i in range(P) if i!=k), 0)
                else:
                    oracle = sum((w1[b,i]*w2[b,j] for i in range(P) for j in range(P) if i!=k and j!=k), 0)
                obl.append(("sw auto=%s k%d b%d"%(auto,k,b), (s2.samples[k][b] == oracle).e))
    return obl
t=time.time()
eng, results = explore(run)
print("paths", len(results), [r[0] for r in results])
for status, trace, obl in results:
    pcs = [c if t_ else z3.Not(c) for c,t_ in trace]
    for name, f in obl:
        s = z3.Solver(); s.add(*pcs); s.add(z3.Not(f))
        r = s.check()
        if r != z3.unsat: print("FAIL", name, r, s.model() if r==z3.sat else "")
print("done", time.time()-t)
