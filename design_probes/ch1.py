from typing import List, Tuple
from yaw.catalog.readers import RandomReader, DataChunkReader

class FakeGen:
    def __init__(self):
        self.calls = []
        self.reseeds = 0
    def reseed(self, seed=None):
        self.reseeds += 1
    def __call__(self, n):
        self.calls.append(n)
        return n

def _mk(num: int, chunk: int) -> RandomReader:
    r = RandomReader.__new__(RandomReader)
    r.generator = FakeGen()
    r._num_records = num
    r.chunksize = chunk
    r._num_samples = 0
    return r

def total_randoms(num: int, chunk: int) -> List[int]:
    """
    pre: 0 <= num <= 12
    pre: 1 <= chunk <= 6
    post: sum(_) == num
    post: all(0 < c <= chunk for c in _)
    post: len(_) == (num + chunk - 1) // chunk
    """
    r = _mk(num, chunk)
    out = []
    for c in r:
        out.append(c)
    return out

def reach(num: int, chunk: int) -> List[int]:
    """
    pre: 0 <= num <= 12
    pre: 1 <= chunk <= 6
    post: len(_) != 3
    """
    return total_randoms(num, chunk)
