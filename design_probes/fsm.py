"""Prototype in-memory FS with op counter + crash index (probe)."""
import z3
from symcore import Engine, SB

class Crash(BaseException): pass

class FS:
    def __init__(self, crash_at=None):
        self.nodes = {}     # path str -> ("dir", None) | ("file", [values])
        self.ops = 0; self.crash_at = crash_at; self.log = []
    def _op(self, desc):
        """called before each mutating operation; crash if op index == crash_at (symbolic)"""
        i = self.ops; self.ops += 1
        if self.crash_at is not None and bool(SB(self.crash_at == i)):
            self.log.append(("CRASH before", i, desc)); raise Crash(i)
        self.log.append((i, desc))
    def snapshot(self): return {k: (t, list(v) if v is not None else None) for k, (t, v) in self.nodes.items()}

class FFile:
    def __init__(self, fs, path, mode):
        self.fs, self.path, self.mode, self.pos = fs, path, mode, 0
        if "w" in mode:
            fs._op(("create/trunc", path)); fs.nodes[path] = ("file", [])
        elif "a" in mode:
            if path not in fs.nodes: fs._op(("create", path)); fs.nodes[path] = ("file", [])
        else:
            if path not in fs.nodes or fs.nodes[path][0] != "file": raise FileNotFoundError(path)
    def write(self, v): self.fs._op(("write", self.path)); self.fs.nodes[self.path][1].append(v)
    def read(self, n=None):
        data = self.fs.nodes[self.path][1]
        if n is None: out = data[self.pos:]; self.pos = len(data); return out
        if self.pos < len(data) and isinstance(data[self.pos], bytes):
            out = data[self.pos]; self.pos += 1; return out
        return b""
    def close(self): pass
    def __enter__(self): return self
    def __exit__(self, *a): return False

class FPath:
    fs = None
    def __init__(self, p): self.p = p.p if isinstance(p, FPath) else str(p)
    def __truediv__(self, o): return FPath(self.p.rstrip("/") + "/" + str(o))
    def __str__(self): return self.p
    __repr__ = __str__
    @property
    def name(self): return self.p.rsplit("/", 1)[-1]
    def exists(self): return self.p in self.fs.nodes
    def open(self, mode="r"): return FFile(self.fs, self.p, mode)
    def mkdir(self, parents=False): self.fs._op(("mkdir", self.p)); self.fs.nodes[self.p] = ("dir", None)
