import z3, time
def pt(n):
    cr, sr, cd, sd = z3.Reals(f"cr{n} sr{n} cd{n} sd{n}")
    cons = [cr*cr+sr*sr==1, cd*cd+sd*sd==1, cd>=0]
    xyz = (cr*cd, sr*cd, sd)
    return xyz, cons
(p, cp), (q, cq) = pt(1), pt(2)
goal = sum((a-b)*(a-b) for a,b in zip(p,q)) <= 4
u = z3.Reals("u0 u1 u2")
hint = [u[i] == p[i]+q[i] for i in range(3)] + [u[0]*u[0]+u[1]*u[1]+u[2]*u[2] >= 0]
s = z3.Solver(); s.set("timeout", 60000); s.add(*cp, *cq, *hint, z3.Not(goal)); t=time.time(); print(s.check(), "%.2fs"%(time.time()-t))
