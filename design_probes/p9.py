import world as W, itertools, sys
class Box: pass
box = Box(); box.world = None
class Proxy:
    def __getattr__(self, k): return getattr(box.world, k)
MPI = W.install(Proxy())
box.world = W.World(2, lambda n: 0)   # needed at import: Get_size()>1
import yaw.utils.parallel as par
print("use_mpi", par.use_mpi(), type(par.COMM).__name__)
def square(x): return x*x
def explore(size, ntasks, max_workers, eager):
    outcomes = set(); runs = 0
    stack = [[]]
    while stack:
        prefix = stack.pop(); trace = []
        def choose(n):
            i = len(trace); c = prefix[i] if i < len(prefix) else 0
            trace.append((c, n)); return c
        box.world = W.World(size, choose, eager=eager)
        def target(rank):
            return list(par.iter_unordered(square, range(ntasks), max_workers=max_workers))
        try:
            res = box.world.run(target); out = ("ok", tuple(sorted(res[0])))
        except W.Deadlock as e:
            out = ("deadlock", str(e))
        runs += 1; outcomes.add(out)
        for k in range(len(prefix), len(trace)):
            for alt in range(1, trace[k][1]):
                stack.append([c for c, _ in trace[:k]] + [alt])
    return runs, outcomes
for size, nt, mw, eager in [(2,3,None,True),(3,4,None,True),(3,4,None,False),(4,3,None,True),(3,3,1,True),(3,3,2,True)]:
    print(size, nt, mw, "eager" if eager else "sync", explore(size, nt, mw, eager))
