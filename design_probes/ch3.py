from typing import List, Tuple
import yaw.catalog.readers as R

class Col:
    def __init__(self, rows): self.rows = rows
    def to_numpy(self): return self.rows
class Frame:
    """data-frame-like source recording every slice requested"""
    def __init__(self, n, log, lo=0):
        self.n = n; self.log = log; self.lo = lo
    def __len__(self): return self.n
    def __getitem__(self, key):
        if isinstance(key, slice):
            start, stop, step = key.indices(self.n)
            self.log.append((self.lo + start, self.lo + stop))
            return Frame(max(0, stop - start), self.log, self.lo + start)
        return Col(list(range(self.lo, self.lo + self.n)))
class FakeChunk:
    @staticmethod
    def create(ra, dec, degrees=True, **kw):
        return None, ra
R.DataChunk = FakeChunk

def _mk(n: int, chunk: int, log) -> R.DataFrameReader:
    r = R.DataFrameReader.__new__(R.DataFrameReader)
    r._data = Frame(n, log)
    r._num_records = n
    r.chunksize = chunk
    r._columns = {"ra": "a", "dec": "b"}
    r.degrees = True
    r._num_samples = 0
    return r

def slices(n: int, chunk: int) -> Tuple[List[Tuple[int,int]], List[int]]:
    """
    pre: 0 <= n <= 10
    pre: 1 <= chunk <= 5
    post: [row for c in _[1] for row in c] == list(range(n))
    post: all(0 < b - a <= chunk for a, b in _[0])
    post: all(_[0][i][1] == _[0][i+1][0] for i in range(len(_[0]) - 1))
    post: len(_[0]) == (n + chunk - 1) // chunk
    """
    log = []
    r = _mk(n, chunk, log)
    out = [c for c in r]
    return log, out
