import os; os.environ["YAW_NUM_THREADS"]="1"
import numpy as np, pandas as pd, tempfile, warnings; warnings.filterwarnings("ignore")
import yaw
from yaw import Catalog, Configuration, AngularCoordinates
from yaw.correlation.measurements import get_max_angle, PatchLinkage
d = tempfile.mkdtemp()
rng = np.random.default_rng(3)
def mk(name, n, ra0, ra1, dec0, dec1, centers, z=None):
    df = pd.DataFrame(dict(ra=rng.uniform(ra0,ra1,n), dec=rng.uniform(dec0,dec1,n)))
    kw = {}
    if z is not None: df["z"] = rng.uniform(*z, n); kw["redshift_name"]="z"
    return df, Catalog.from_dataframe(os.path.join(d,name), df, ra_name="ra", dec_name="dec", patch_centers=centers, **kw)
centers = AngularCoordinates(np.deg2rad([[2.5,5.],[7.5,5.]]))
cfg = Configuration.create(rmin=500, rmax=1500, zmin=0.01, zmax=0.03, num_bins=1)   # low z: angle at zmid=0.02 > angle at 0.05
print("max angle used for linkage [deg]", np.rad2deg(get_max_angle(cfg).data), "angle at zmid", np.rad2deg(cfg.scales.scales.get_angle_radian(0.02)[1]))
dfr, ref = mk("ref", 300, 0, 10, 0, 10, centers, z=(0.01,0.03))
dfu, unk = mk("unk", 300, 0, 10, 0, 10, centers)
dfx, rnd = mk("rnd", 300, 0, 10, 0, 10, centers)
cf = yaw.crosscorrelate(cfg, ref, unk, unk_rand=rnd)[0]
got = cf.dd.counts.get_array()[0]
# brute force
def xyz(df): 
    ra, dec = np.deg2rad(df.ra.values), np.deg2rad(df.dec.values); return np.c_[np.cos(ra)*np.cos(dec), np.sin(ra)*np.cos(dec), np.sin(dec)]
def pid(df): 
    from scipy.cluster import vq; return vq.vq(xyz(df), centers.to_3d())[0]
amin, amax = cfg.scales.scales.get_angle_radian(0.02)
X, Y = xyz(dfr), xyz(dfu); pr, pu = pid(dfr), pid(dfu)
ang = 2*np.arcsin(np.clip(np.linalg.norm(X[:,None,:]-Y[None,:,:], axis=2)/2, 0, 1))
m = (ang > amin[0]) & (ang <= amax[0])
exp = np.array([[m[np.ix_(pr==i, pu==j)].sum() for j in range(2)] for i in range(2)], float)
print("got\n", got, "\nexpected\n", exp)
print("links", PatchLinkage.from_catalogs(cfg, ref, unk, rnd).patch_links)
