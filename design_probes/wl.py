import os, sys
d = sys.argv[1]
os.mkdir(d)
for i in range(3):
    with open(os.path.join(d, f"f{i}"), "wb") as f:
        f.write(b"header"); f.flush(); f.write(b"x"*10)
print("completed")
