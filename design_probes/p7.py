import time, z3, numpy as np, types
from symcore import *
import yaw.catalog.trees as trees, yaw.datachunk as datachunk, yaw.coordinates as coordinates, yaw.binning as binningmod, yaw.utils.misc as misc
from yaw.binning import Binning

class Shim:
    def __init__(self, real): self._r = real
    def __getattr__(self, k): return getattr(self._r, k)
    def empty(self, shape, dtype=float, **k):
        if dtype in (float, "f8", np.float64): return np.empty(shape, dtype=object).view(SArr)
        return np.empty(shape, dtype=dtype)
    def asarray(self, a, dtype=None, **k):
        arr = np.asarray(a)
        if arr.dtype == object: return arr.view(SArr)
        return np.asarray(a, dtype=dtype)
    def atleast_2d(self, a):
        r = np.atleast_2d(a); return r.view(SArr) if r.dtype==object else r
    def atleast_1d(self, a):
        r = np.atleast_1d(a); return r.view(SArr) if r.dtype==object else r
    def digitize(self, x, bins, right=False):
        out = np.empty(len(x), dtype=np.int64)
        for i, xi in enumerate(x):
            n = 0
            for b in bins:
                cond = (b < xi) if right else (b <= xi)
                if cond: n += 1
                else: break   # bins increasing
            out[i] = n
        return out
    def any(self, a, *args, **k):
        a = np.asarray(a)
        if a.dtype == object:
            for v in a.ravel():
                if v: return True
            return False
        return np.any(a, *args, **k)
    def diff(self, a): return a[1:] - a[:-1]
    def cos(self, a): return ufun("cos", a)
    def sin(self, a): return ufun("sin", a)
_uf = {}
def ufun(name, a):
    f = _uf.setdefault(name, z3.Function(name, z3.RealSort(), z3.RealSort()))
    out = np.empty(np.shape(a), dtype=object)
    for idx in np.ndindex(*np.shape(a)): out[idx] = SV(f(_z(a[idx])))
    return out.view(SArr)

shim = Shim(np)
for m in (trees, datachunk, coordinates, binningmod): m.np = shim

class SpecTree:
    def __init__(self, data, leafsize=16, copy_data=True): self.data = data
trees.KDTree = SpecTree

class FakePatch:
    has_redshifts = True
    def __init__(self, chunk): self.chunk = chunk
    def load_data(self): return self.chunk

N, NB = 3, 2
def run(eng):
    chunk = np.empty(N, dtype=[("ra", object), ("dec", object), ("weights", object), ("redshifts", object)])
    for i in range(N):
        for f in chunk.dtype.names: chunk[f][i] = SV(z3.Real(f"{f}{i}"))
    edges = symarr("e", (NB+1,))
    closed_right = z3.Bool("closed_right")
    closed = "right" if SB(closed_right) else "left"
    b = Binning(edges, closed=closed)     # raises on non-increasing edges
    tr = trees.build_trees(FakePatch(chunk), b, leafsize=16)
    obl = []
    for k in range(NB):
        lo, hi = edges[k].e, edges[k+1].e
        zs = [chunk["redshifts"][i].e for i in range(N)]
        ws = [chunk["weights"][i].e for i in range(N)]
        inbin = [z3.If(closed_right, z3.And(lo < z, z <= hi), z3.And(lo <= z, z < hi)) for z in zs]
        obl.append((f"num{k}", z3.Sum([z3.If(c, 1, 0) for c in inbin]) == tr[k].num_records))
        sw = tr[k].sum_weights
        obl.append((f"sw{k}", z3.Sum([z3.If(c, w, 0) for c, w in zip(inbin, ws)]) == _z(sw)))
    return obl
trees_float = float
trees.float = lambda x: x if isinstance(x, SV) else trees_float(x)
t=time.time()
eng, results = explore(run)
from collections import Counter
print("paths", len(results), Counter(r[0] for r in results), "explore %.1fs"%(time.time()-t), "queries", eng.queries)
bad=0
for status, trace, out in results:
    pcs = [c if t_ else z3.Not(c) for c,t_ in trace]
    if status.startswith("raise:Unbound") or status.startswith("unsupported"):
        s = z3.Solver(); s.add(*pcs); s.check(); 
        if bad<2: print(status, out, s.model())
        bad+=1; continue
    if status != "ok": continue
    for name, f in out:
        s = z3.Solver(); s.add(*pcs); s.add(z3.Not(f))
        r = s.check()
        if r != z3.unsat: print("FAIL", name, r, s.model()); 
print("bad", bad, "total %.1fs"%(time.time()-t))
