import z3, numpy as np, time, warnings; warnings.filterwarnings("ignore")
from symcore import *
from symcore import _z
import yaw.binning as BM, yaw.cosmology as CM, yaw.config.binning as CB, yaw.config.scales as CS, yaw.config.combined as CC
from yaw.cosmology import CustomCosmology
from yaw.config import Configuration

R = z3.RealSort()
def vec(f):
    def g(a):
        a = np.asarray(a, dtype=object); out = np.empty(a.shape, dtype=object)
        for i in np.ndindex(*a.shape): out[i] = f(a[i])
        return out.view(SArr) if out.ndim else out.item()
    return g
class UFCosmo(CustomCosmology):
    def __init__(self, name):
        self.name = name; self.DC = z3.Function("DC_" + name, R, R); self.inv = z3.Function("DCinv_" + name, R, R)
    def comoving_distance(self, z): return vec(lambda x: SV(self.DC(_z(x))))(z)
    def angular_diameter_distance(self, z): return vec(lambda x: SV(self.DC(_z(x)) / (1 + _z(x))))(z)
def z_at_value(func, vals):
    cosmo = func.__self__
    class Q: pass
    q = Q(); q.value = vec(lambda x: SV(cosmo.inv(_z(x))))(vals); return q
class Shim:
    def __getattr__(self, k): return getattr(np, k)
    def asarray(self, a, dtype=None):
        a = np.asarray(a, dtype=object); return a.view(SArr)
    def atleast_1d(self, a): return np.atleast_1d(np.asarray(a, dtype=object)).view(SArr)
    def any(self, a):
        for v in np.asarray(a, dtype=object).ravel():
            if v: return True
        return False
    def diff(self, a): return a[1:] - a[:-1]
    def linspace(self, lo, hi, n):
        return np.array([lo + (hi - lo) * SV(z3.RealVal(i) / (n - 1)) for i in range(n)], dtype=object).view(SArr)
    def array_equal(self, a, b):
        a = np.atleast_1d(np.asarray(a, dtype=object)); b = np.atleast_1d(np.asarray(b, dtype=object))
        if a.shape != b.shape: return False
        for x, y in zip(a.ravel(), b.ravel()):
            if not bool(x == y): return False
        return True
shim = Shim()
for m in (BM, CM, CS): m.np = shim
CM.z_at_value = z_at_value
import types
class _Q: pass
CM.units = types.SimpleNamespace(Quantity=_Q, Mpc=1)
pyfloat = float
for m in (CB, CS): m.float = lambda x: x if isinstance(x, SV) else pyfloat(x)
import yaw.config.base as BASE
BASE.float = CB.float
# parse_optional(value, float) passes the builtin float type: patch
CS.parse_optional = lambda v, t: None if v is None else (v if isinstance(v, SV) else t(v))

from astropy.cosmology import FLRW
CC.get_args = lambda t: (FLRW, CustomCosmology)
cosmoA, cosmoB = UFCosmo("A"), UFCosmo("B")
CM.get_default_cosmology = lambda: cosmoA
CC.get_default_cosmology = lambda: cosmoA
def edges_of(cfg): return list(cfg.binning.binning.edges)
def run(eng, method="linear", nb=2):
    zmin, zmax, rmin, rmax = SV(z3.Real("zmin")), SV(z3.Real("zmax")), SV(z3.Real("rmin")), SV(z3.Real("rmax"))
    zmax2 = SV(z3.Real("zmax2"))
    pre = [zmin.e > 0, rmin.e > 0]
    cfg = Configuration.create(rmin=rmin, rmax=rmax, zmin=zmin, zmax=zmax, num_bins=nb, method=method, cosmology=cosmoB)
    e = edges_of(cfg); obl = []
    obl.append(("nbins", z3.BoolVal(len(e) == nb + 1)))
    if method == "linear":
        obl.append(("span", z3.And((e[0] == zmin).e, (e[-1] == zmax).e)))
    obl.append(("increasing", z3.And(*[(e[i] < e[i+1]).e for i in range(nb)])))
    # modify == create(merged)
    m = cfg.modify(zmax=zmax2)
    c2 = Configuration.create(rmin=rmin, rmax=rmax, zmin=zmin, zmax=zmax2, num_bins=nb, method=method, cosmology=cosmoB)
    obl.append(("modify==create", z3.And(*[(a == b).e for a, b in zip(edges_of(m), edges_of(c2))])))
    # equality
    try:
        eq = (cfg == Configuration.create(rmin=rmin, rmax=rmax, zmin=zmin, zmax=zmax, num_bins=nb, method=method, cosmology=cosmoB))
        obl.append(("eq", z3.BoolVal(bool(eq))))
    except Exception as ex:
        obl.append(("eq raises %s" % type(ex).__name__, z3.BoolVal(False)))
    return pre, obl
import sys
method = sys.argv[1]
t = time.time()
eng, results = explore(lambda e: run(e, method))
from collections import Counter
print(method, "paths", len(results), Counter(r[0] for r in results), "%.1fs" % (time.time() - t))
fails = Counter()
for status, trace, out in results:
    pcs = [c if t_ else z3.Not(c) for c, t_ in trace]
    if status != "ok":
        if not status.startswith("raise:ConfigError") and not status.startswith("raise:ValueError"):
            import traceback; traceback.print_exception(out)
        continue
    pre, obl = out
    for name, f in obl:
        s = z3.Solver(); s.set("timeout", 20000); s.add(*pcs, *pre, z3.Not(f)); r = s.check()
        if r != z3.unsat: fails[(name, str(r))] += 1
print("failures", dict(fails))
