import os; os.environ["YAW_NUM_THREADS"]="1"
import numpy as np, pandas as pd, tempfile, warnings, pickle; warnings.filterwarnings("ignore")
from yaw import Catalog, Configuration, AngularCoordinates, HistData
from yaw.catalog.trees import BinnedTrees
from yaw.binning import Binning
d = tempfile.mkdtemp()
df = pd.DataFrame(dict(ra=[1.,2.,3.,4.], dec=[1.,2.,3.,4.], z=[0.2, 0.2, 0.15, 0.3], pid=[0,0,0,0]))
cat = Catalog.from_dataframe(os.path.join(d,"c"), df, ra_name="ra", dec_name="dec", redshift_name="z", patch_name="pid")
cfg = Configuration.create(rmin=100, rmax=1000, edges=[0.1,0.2,0.3], closed="right")
cat.build_trees(cfg.binning.edges, closed="right")
print("D10 trees per-bin counts (right-closed):", [t.num_records for t in BinnedTrees(cat[0])])
print("D10 HistData counts:", HistData.from_catalog(cat, cfg).data)
# D13: stale trees after interrupted rebuild
p = cat[0]
A = Binning([0.1,0.2,0.3], closed="right"); Bb = Binning([0.1,0.16,0.3], closed="right")
BinnedTrees.build(p, A, force=True)
# simulate crash in build(B): trees.pkl rewritten for B, binning file not yet updated
from yaw.catalog.trees import build_trees
with open(p.cache_path/"trees.pkl","wb") as f: pickle.dump(build_trees(p, Bb, leafsize=16), f)
t = BinnedTrees.build(p, A)   # next use with binning A
print("D13 after crash, request A -> per-bin counts", [x.num_records for x in t], "expected", [2,1] if False else "A-binning counts [3,1]")
