import z3, time, itertools
from symcore import *
from yaw.correlation.measurements import PatchLinkage
N = 4
def run(eng):
    adj = {}
    for i in range(N):
        for j in range(i+1, N):
            adj[i,j] = adj[j,i] = bool(SB(z3.Bool(f"l{i}{j}")))
    links = {i: {i} | {j for j in range(N) if j != i and adj[i,j]} for i in range(N)}
    pl = PatchLinkage.__new__(PatchLinkage); pl.patch_links = links; pl.config = None
    out = {}
    for auto in (True, False):
        got = list(pl.iter_patch_id_pairs(auto=auto))
        exp = [(i,j) for i in range(N) for j in range(N) if j in links[i] and (not auto or j >= i)]
        out[auto] = (sorted(got) == sorted(exp), got[:N] == [(i,i) for i in range(N)])
    return out
t = time.time()
eng, res = explore(run)
print(len(res), "paths", all(all(all(v) for v in r[2].values()) for r in res), "%.2fs"%(time.time()-t))
