from yaw.utils.misc import format_float_fixed_width

class Dec:
    """stand-in for a finite float: value = (-1)^neg * (ip + fp/10^10), formatted like CPython's ' .10f'"""
    def __init__(self, neg: bool, ip: int, fp: int):
        self.neg = neg; self.ip = ip; self.fp = fp
    def __format__(self, spec: str) -> str:
        assert spec == " .10f"
        return ("-" if self.neg else " ") + str(self.ip) + "." + str(self.fp).rjust(10, "0")

def fmt(neg: bool, ip: int, fp: int) -> str:
    """
    pre: 0 <= ip < 10**9
    pre: 0 <= fp < 10**10
    post: len(_) == 10
    post: _[0] == ("-" if neg else " ")
    post: " " not in _[1:]
    """
    return format_float_fixed_width(Dec(neg, ip, fp), 10)

def fmt_value(neg: bool, ip: int, fp: int) -> str:
    """
    pre: 0 <= ip < 10**7
    pre: 0 <= fp < 10**10
    post: _.startswith(("-" if neg else " ") + str(ip) + ".")
    """
    return format_float_fixed_width(Dec(neg, ip, fp), 10)
