import z3, numpy as np, time, itertools
from symcore import *
from symcore import _z
import yaw.coordinates as CO
from yaw.coordinates import AngularCoordinates, AngularDistances
R = z3.RealSort()
PI = z3.Real("pi")
UF = {n: z3.Function(n, R, R) for n in ("cos", "sin", "arccos", "arcsin")}
apps = {n: [] for n in UF}
def ap(n, x):
    e = _z(x); apps[n].append(e); return SV(UF[n](e))
def vec(f):
    def g(a):
        a = np.asarray(a, dtype=object); out = np.empty(a.shape, dtype=object)
        for i in np.ndindex(*a.shape): out[i] = f(a[i])
        return out.view(SArr)
    return g
def sqrt1(x):
    y = z3.FreshReal("sqrt"); sqrt_defs.append(z3.And(y >= 0, y * y == _z(x))); return SV(y)
sqrt_defs = []
def mod2pi(v, m):
    # v in (-m, m): python-style modulo
    ve, me = _z(v), _z(m)
    return SV(z3.If(ve < 0, ve + me, ve))
SV.__mod__ = mod2pi
class Shim:
    pi = SV(PI)
    def __getattr__(self, k): return getattr(np, k)
    def atleast_2d(self, a): return np.atleast_2d(np.asarray(a, dtype=object)).view(SArr)
    def atleast_1d(self, a): return np.atleast_1d(np.asarray(a, dtype=object)).view(SArr)
    def cos(self, a): return vec(lambda x: ap("cos", x))(a)
    def sin(self, a): return vec(lambda x: ap("sin", x))(a)
    def arccos(self, a): return vec(lambda x: ap("arccos", x))(a)
    def arcsin(self, a): return vec(lambda x: ap("arcsin", x))(a)
    def sqrt(self, a): return vec(sqrt1)(a)
    def ones_like(self, a): return np.array([SV(z3.RealVal(1))] * len(a), dtype=object).view(SArr)
    def divide(self, x, y, where, out):
        for i in range(len(x)):
            if bool(where[i]): out[i] = x[i] / y[i]
        return out
    def sign(self, a): return vec(lambda v: SV(z3.If(_z(v) > 0, 1, z3.If(_z(v) < 0, -1, 0))))(a)
    def where(self, c, a, b):
        out = np.empty(len(c), dtype=object)
        bb = b if isinstance(b, np.ndarray) else [b] * len(c)
        for i in range(len(c)): out[i] = a if bool(c[i]) else bb[i]
        return out.view(SArr)
    def any(self, a):
        for v in np.asarray(a, dtype=object).ravel():
            if v: return True
        return False
shim = Shim(); CO.np = shim

def axioms():
    ax = [PI > z3.RealVal("3.14159"), PI < z3.RealVal("3.1416")]
    for t in apps["cos"] + apps["sin"]:
        c, s = UF["cos"](t), UF["sin"](t)
        ax += [c * c + s * s == 1,
               z3.Implies(z3.And(t >= 0, t <= PI), s >= 0), z3.Implies(z3.And(t >= PI, t <= 2 * PI), s <= 0),
               z3.Implies(z3.And(t >= 0, t < 2 * PI, s == 0), z3.Or(t == 0, t == PI)),
               z3.Implies(z3.And(t >= -PI / 2, t <= PI / 2), c >= 0),
               z3.Implies(z3.And(t >= -PI / 2, t <= PI / 2, c == 0), z3.Or(t == PI / 2, t == -PI / 2)),
               z3.Implies(t == 0, c == 1), z3.Implies(t == PI, c == -1),
               z3.Implies(t == PI / 2, s == 1), z3.Implies(t == -PI / 2, s == -1)]
    # inverse on principal ranges: for every arccos(u) and every cos(t): u == cos(t) & t in [0,pi] -> arccos(u) == t
    for u in apps["arccos"]:
        ax += [UF["arccos"](u) >= 0, UF["arccos"](u) <= PI]
        for t in apps["cos"]:
            ax.append(z3.Implies(z3.And(u == UF["cos"](t), t >= 0, t <= PI), UF["arccos"](u) == t))
            ax.append(z3.Implies(z3.And(u == UF["cos"](t), t >= PI, t <= 2 * PI), UF["arccos"](u) == 2 * PI - t))
    for u in apps["arcsin"]:
        ax += [UF["arcsin"](u) >= -PI / 2, UF["arcsin"](u) <= PI / 2]
        for t in apps["sin"]:
            ax.append(z3.Implies(z3.And(u == UF["sin"](t), t >= -PI / 2, t <= PI / 2), UF["arcsin"](u) == t))
    return ax

def run(eng):
    for v in apps.values(): v.clear()
    sqrt_defs.clear()
    ra, dec = SV(z3.Real("ra")), SV(z3.Real("dec"))
    pre = [ra.e >= 0, ra.e < 2 * PI, dec.e >= -PI / 2, dec.e <= PI / 2]
    p = AngularCoordinates(np.array([[ra, dec]], dtype=object).view(SArr))
    xyz = p.to_3d()
    q = AngularCoordinates.from_3d(xyz)
    x, y, z = xyz[0]
    obl = [("unit", (x * x + y * y + z * z == 1).e),
           ("dec roundtrip", (q.dec[0] == dec).e),
           ("ra in [0,2pi)", z3.And(q.ra[0].e >= 0, q.ra[0].e < 2 * PI)),
           ("ra roundtrip (off pole)", z3.Implies(z3.And(dec.e > -PI / 2, dec.e < PI / 2), (q.ra[0] == ra).e)),
           ("pole ra = 0", z3.Implies(z3.Or(dec.e == -PI / 2, dec.e == PI / 2), q.ra[0].e == 0))]
    return pre, obl, list(sqrt_defs), axioms()
t = time.time()
eng, results = explore(run)
from collections import Counter
print("paths", len(results), Counter(r[0] for r in results), "%.1fs" % (time.time() - t))
for status, trace, out in results:
    pcs = [c if t_ else z3.Not(c) for c, t_ in trace]
    if status != "ok":
        import traceback; traceback.print_exception(out); continue
    pre, obl, sq, ax = out
    # is path feasible under axioms?
    s = z3.Solver(); s.set("timeout", 30000); s.add(*pcs, *pre, *sq, *ax); feas = s.check()
    print(" path feasible:", feas, [str(c)[:50] for c in pcs])
    if feas == z3.unsat: continue
    for name, f in obl:
        s = z3.Solver(); s.set("timeout", 60000); s.add(*pcs, *pre, *sq, *ax, z3.Not(f)); t0 = time.time(); r = s.check()
        print("   ", name, r, "%.1fs" % (time.time() - t0))
