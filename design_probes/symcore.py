"""Prototype: symbolic scalars + path exploration (probe only)."""
import z3, numpy as np, fractions, time

class Unsupported(Exception): pass

class Engine:
    cur = None
    def __init__(self):
        self.solver = z3.Solver()
        self.prefix = []      # decisions to replay
        self.trace = []       # decisions taken in this run [(cond, taken)]
        self.queries = 0
        self.solver_time = 0.0
        self.assumptions = []
    def check(self, *extra):
        t = time.time(); self.queries += 1
        r = self.solver.check(*extra)
        self.solver_time += time.time() - t
        return r
    def decide(self, cond):
        """cond: z3 BoolRef. Return python bool, recording decision."""
        cond = z3.simplify(cond)
        if z3.is_true(cond): return True
        if z3.is_false(cond): return False
        i = len(self.trace)
        if i < len(self.prefix):
            taken = self.prefix[i]
        else:
            # pick True first if feasible
            pcs = [c if t else z3.Not(c) for c, t in self.trace]
            if self.check(*pcs, cond) == z3.sat:
                taken = True
            else:
                taken = False
        self.trace.append((cond, taken))
        return taken
    def pc(self):
        return [c if t else z3.Not(c) for c, t in self.trace]

def explore(fn, max_paths=10000):
    """Run fn() repeatedly over all feasible paths. fn returns list of (name, z3 Bool) obligations to hold."""
    eng = Engine(); Engine.cur = eng
    prefix = []
    paths = 0; results = []
    while True:
        eng.prefix = prefix; eng.trace = []
        try:
            out = fn(eng)
            status = "ok"
        except Unsupported as e:
            out = None; status = "unsupported:%s" % e
        except Exception as e:
            out = e; status = "raise:" + type(e).__name__
        paths += 1
        results.append((status, list(eng.trace), out))
        # backtrack: find last decision (beyond forced) that was True and whose False alt is feasible
        tr = eng.trace
        nxt = None
        for k in range(len(tr)-1, -1, -1):
            c, t = tr[k]
            if t:
                pcs = [cc if tt else z3.Not(cc) for cc, tt in tr[:k]]
                if eng.check(*pcs, z3.Not(c)) == z3.sat:
                    nxt = [tt for _, tt in tr[:k]] + [False]
                    break
            # if t is False it was either forced-infeasible True or an explored alt
        if nxt is None or paths >= max_paths:
            break
        prefix = nxt
    return eng, results

def _z(x):
    if isinstance(x, np.ndarray) and x.ndim == 0: x = x.item()
    if isinstance(x, SV): return x.e
    if isinstance(x, bool): raise Unsupported("bool arith")
    if isinstance(x, int): return z3.RealVal(x)
    if isinstance(x, float):
        return z3.RealVal(str(fractions.Fraction(x)))
    if isinstance(x, fractions.Fraction): return z3.RealVal(str(x))
    if isinstance(x, (np.floating, np.integer)): return _z(x.item())
    raise Unsupported("coerce %r" % type(x))

class SB:
    __slots__ = ("e",)
    def __init__(self, e): self.e = e
    def __bool__(self): return Engine.cur.decide(self.e)
    def __and__(self, o): return SB(z3.And(self.e, o.e if isinstance(o, SB) else z3.BoolVal(bool(o))))
    def __or__(self, o): return SB(z3.Or(self.e, o.e if isinstance(o, SB) else z3.BoolVal(bool(o))))
    __rand__ = __and__; __ror__ = __or__
    def __invert__(self): return SB(z3.Not(self.e))

class SV:
    __slots__ = ("e",)
    def __init__(self, e): self.e = e
    def __add__(self, o): return SV(self.e + _z(o))
    def __radd__(self, o): return SV(_z(o) + self.e)
    def __sub__(self, o): return SV(self.e - _z(o))
    def __rsub__(self, o): return SV(_z(o) - self.e)
    def __mul__(self, o): return SV(self.e * _z(o))
    def __rmul__(self, o): return SV(_z(o) * self.e)
    def __truediv__(self, o): return SV(self.e / _z(o))
    def __rtruediv__(self, o): return SV(_z(o) / self.e)
    def __neg__(self): return SV(-self.e)
    def __pos__(self): return self
    def __pow__(self, o):
        if isinstance(o, int) and o >= 0:
            r = z3.RealVal(1)
            for _ in range(o): r = r * self.e
            return SV(r)
        raise Unsupported("pow")
    def __lt__(self, o): return SB(self.e < _z(o))
    def __le__(self, o): return SB(self.e <= _z(o))
    def __gt__(self, o): return SB(self.e > _z(o))
    def __ge__(self, o): return SB(self.e >= _z(o))
    def __eq__(self, o): return SB(self.e == _z(o))
    def __ne__(self, o): return SB(self.e != _z(o))
    __hash__ = None
    def __float__(self): raise Unsupported("float() of symbolic")
    def __repr__(self): return "SV(%s)" % self.e

class SArr(np.ndarray):
    def astype(self, dtype, *a, **k):
        if np.dtype(dtype).kind == "f":
            return self.copy()
        return np.ndarray.astype(self, dtype, *a, **k)

def symarr(name, shape):
    a = np.empty(shape, dtype=object)
    for idx in np.ndindex(*shape):
        a[idx] = SV(z3.Real(name + "_" + "_".join(map(str, idx))))
    return a.view(SArr)
