import world2 as W, os, sys, tempfile, shutil, warnings; warnings.filterwarnings("ignore")
import numpy as np, pandas as pd
MPI = W.install(); W.WorldProxy.cur = W.World(2, lambda n: 0)
import yaw
from yaw import Catalog, AngularCoordinates
import yaw.utils.parallel as par
print("use_mpi:", par.use_mpi())
rng = np.random.default_rng(1); n = 23
df = pd.DataFrame(dict(ra=rng.uniform(0, 10, n), dec=rng.uniform(0, 10, n), w=rng.uniform(1, 2, n), pid=rng.integers(0, 3, n)))
def explore(size, eager, max_workers=None, limit=400):
    outcomes = {}; runs = 0; stack = [[]]
    while stack and runs < limit:
        prefix = stack.pop(); trace = []
        def choose(k):
            i = len(trace); c = prefix[i] if i < len(prefix) else 0; trace.append((c, k)); return c
        w = W.World(size, choose, eager=eager); W.WorldProxy.cur = w
        d = tempfile.mkdtemp(); cache = os.path.join(d, "cat")
        def target(rank):
            c = Catalog.from_dataframe(cache, df, ra_name="ra", dec_name="dec", weight_name="w", patch_name="pid", chunksize=8, max_workers=max_workers)
            return sorted((k, p.meta.num_records) for k, p in c.items())
        try:
            res = w.run(target)
            out = ("ok", str(res.get(0)), "errors:" + str({r: type(e).__name__ + ":" + str(e)[:60] for r, e in w.errors.items()}))
        except W.Deadlock as e:
            out = ("deadlock", str(e)[:300], str({r: repr(ex)[:200] for r, ex in w.errors.items()}))
            import traceback
            for ex in list(w.errors.values())[:1]: traceback.print_exception(ex)
        shutil.rmtree(d, ignore_errors=True)
        runs += 1; outcomes[out] = outcomes.get(out, 0) + 1
        for k in range(len(prefix), len(trace)):
            for alt in range(1, trace[k][1]): stack.append([c for c, _ in trace[:k]] + [alt])
    return runs, outcomes
expected = sorted((int(k), int(v)) for k, v in df.pid.value_counts().items())
print("expected per-patch counts:", expected)
for size, eager in [(2, True), (3, True), (3, False), (4, True)]:
    runs, oc = explore(size, eager)
    print(f"size={size} eager={eager} runs={runs}")
    for k, v in oc.items(): print("   ", v, "x", k)
