# C14 probe: algebraic parametrisation of sphere points; is to_3d/from_3d/distance identity provable by z3 NRA?
import z3, time
def pt(n):
    cr, sr, cd, sd = z3.Reals(f"cr{n} sr{n} cd{n} sd{n}")
    cons = [cr*cr+sr*sr==1, cd*cd+sd*sd==1, cd>=0]
    xyz = (cr*cd, sr*cd, sd)
    return xyz, cons
(p, cp), (q, cq) = pt(1), pt(2)
# unit norm
for name, goal in [
  ("unit", p[0]*p[0]+p[1]*p[1]+p[2]*p[2]==1),
  ("chord2=2-2dot", sum((a-b)*(a-b) for a,b in zip(p,q)) == 2-2*sum(a*b for a,b in zip(p,q))),
  ("chord2<=4", sum((a-b)*(a-b) for a,b in zip(p,q)) <= 4),
]:
    s = z3.Solver(); s.set("timeout", 60000); s.add(*cp, *cq, z3.Not(goal)); t=time.time(); print(name, s.check(), "%.2fs"%(time.time()-t))
# from_3d(to_3d) : r_d2 = sqrt(x^2+y^2) = cd (>=0); x_normed = x/r_d2 = cr (if cd>0); ra = arccos(cr)*sgn(y) mod 2pi
# model arccos via the angle param: ra_out has cos = x_normed, and sign by sgn(y) -> sin(ra_out) = sgn(y)*sqrt(1-cr^2)
cr, sr, cd, sd = z3.Reals("cr1 sr1 cd1 sd1")
y = sr*cd
rd2 = z3.Real("rd2"); 
s = z3.Solver(); s.set("timeout", 60000)
s.add(*cp, rd2>=0, rd2*rd2 == p[0]*p[0]+p[1]*p[1], cd>0)
xn = p[0]/rd2
sgn = z3.If(y==0, 1, z3.If(y>0, 1, -1))
sin_out = z3.Real("sin_out")  # sin(arccos(xn)) >= 0
s.add(sin_out>=0, sin_out*sin_out == 1-xn*xn)
goal = z3.And(xn == cr, sgn*sin_out == sr)
s.add(z3.Not(goal)); t=time.time(); print("ra roundtrip", s.check(), "%.2fs"%(time.time()-t))
