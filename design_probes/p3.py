import time, z3, numpy as np
from symcore import *
SV.conjugate = lambda self: self
from yaw.binning import Binning
from yaw.correlation.paircounts import PatchedCounts, PatchedSumWeights, NormalisedCounts
from yaw.correlation.corrfunc import CorrFunc
from yaw.correlation import corrdata

B, P = 1, 3
binning = Binning([0.1, 0.2])
def mk(tag, auto):
    C = symarr("c"+tag, (B,P,P)); w1 = symarr("u"+tag, (B,P)); w2 = symarr("v"+tag, (B,P))
    if auto: w2 = w1
    return NormalisedCounts(PatchedCounts(binning, C, auto=auto), PatchedSumWeights(binning, w1, w2, auto=auto)), C, w1, w2

def tot(C, w1, w2, auto, k=None):
    idx = [i for i in range(P) if i != k]
    cs = sum((C[0,i,j] for i in idx for j in idx), 0)
    if auto:
        ws = sum((w1[0,i]*w1[0,j] for i in idx for j in idx if i<j), 0) + sum((w1[0,i]*w1[0,i]*0.5 for i in idx), 0)
    else:
        ws = sum((w1[0,i]*w2[0,j] for i in idx for j in idx), 0)
    return cs, ws

def run(eng):
    auto = False
    dd, Cdd, a1, a2 = mk("dd", auto)
    dr, Cdr, b1, b2 = mk("dr", auto)
    rr, Crr, c1, c2 = mk("rr", auto)
    cf = CorrFunc(dd, dr, None, rr)
    t=time.time()
    data = cf.sample()
    obl = []
    # positivity assumptions for denominators
    assume = []
    for k in [None]+list(range(P)):
        DDc, DDw = tot(Cdd, a1, a2, auto, k); DRc, DRw = tot(Cdr, b1, b2, auto, k); RRc, RRw = tot(Crr, c1, c2, auto, k)
        assume += [DDw.e != 0, DRw.e != 0, RRw.e != 0, RRc.e != 0]
        DD = DDc/DDw; DR = DRc/DRw; RR = RRc/RRw
        ls = (DD - DR - DR + RR)/RR
        got = data.data[0] if k is None else data.samples[k][0]
        obl.append(("LS k=%s"%k, (got == ls).e))
    return assume, obl, data
eng, results = explore(run)
print("paths", len(results), [r[0] for r in results])
for status, trace, out in results:
    if status != "ok": print(out); continue
    assume, obl, data = out
    pcs = [c if t_ else z3.Not(c) for c,t_ in trace]
    for name, f in obl:
        t=time.time()
        s = z3.Solver(); s.set("timeout", 60000); s.add(*pcs); s.add(*assume); s.add(z3.Not(f))
        r = s.check()
        print(name, r, "%.2fs"%(time.time()-t))
    # covariance
    t=time.time()
    try:
        cov = data.covariance
        print("cov ok", cov.shape, time.time()-t)
    except Exception as e:
        import traceback; traceback.print_exc()
