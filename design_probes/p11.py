import z3, numpy as np, time, pickle
from symcore import *
from symcore import _z
from fsm import *
import yaw.catalog.trees as T
from yaw.binning import Binning
import yaw.binning as BM
from yaw.options import Closed

class Shim:
    def __getattr__(self, k): return getattr(np, k)
    def asarray(self, a, dtype=None): 
        a = np.asarray(a, dtype=object) if not isinstance(a, np.ndarray) else a
        return a.view(SArr) if a.dtype == object else a
    def any(self, a):
        for v in np.asarray(a, dtype=object).ravel():
            if v: return True
        return False
    def diff(self, a): return a[1:] - a[:-1]
    def empty(self, n): return np.empty(n, dtype=object).view(FArr)
    def fromfile(self, f):   # read remaining values of file as "float64" array
        vals = f.read()
        flat = [x for v in vals for x in (v if isinstance(v, (list, np.ndarray)) else [v])]
        return np.array(flat, dtype=object).view(FArr)
    def array_equal(self, a, b):
        if len(a) != len(b): return False
        for x, y in zip(a, b):
            if not bool(x == y): return False
        return True
class FArr(SArr):
    def tofile(self, f): 
        if len(self): f.write(list(self))
        # zero-length: numpy writes nothing (no syscall)
shim = Shim(); T.np = shim; BM.np = shim

class PickleStub:
    @staticmethod
    def dump(obj, f): f.write(("pickle", obj))
    @staticmethod
    def load(f):
        d = f.read()
        if len(d) != 1 or d[0][0] != "pickle": raise pickle.UnpicklingError("truncated")
        return d[0][1]
T.pickle = PickleStub
# build_trees stub: token recording the binning it was built for
def fake_build_trees(patch, binning, *, leafsize):
    return ("trees-for", None if binning is None else (tuple(binning.edges), str(binning.closed)))
T.build_trees = fake_build_trees

class FakePatch:
    def __init__(self, p): self.cache_path = FPath(p)

def sym_binning(tag, nb):
    """None | Binning with nb bins, symbolic edges/closed"""
    if bool(SB(z3.Bool(tag + "_unbinned"))): return None
    edges = symarr(tag + "_e", (nb + 1,)).view(FArr)
    closed = "left" if bool(SB(z3.Bool(tag + "_left"))) else "right"
    return Binning(edges, closed=closed)

def same(b1, b2):
    if b1 is None or b2 is None: return z3.BoolVal(b1 is None and b2 is None)
    if len(b1.edges) != len(b2.edges): return z3.BoolVal(False)
    return z3.And(*[ (x == y).e for x, y in zip(b1.edges, b2.edges)], z3.BoolVal(b1.closed == b2.closed))

def run(eng, crash=True):
    fs = FS(); FPath.fs = fs
    fs.nodes["/c/p0"] = ("dir", None)
    patch = FakePatch("/c/p0")
    old = sym_binning("old", 1); new = sym_binning("new", 1)
    # prior state: a completed build with `old`  (invariant I holds)
    T.BinnedTrees.build(patch, old, force=True)
    # workload: build with `new`, possibly crashing at op k
    fs.crash_at = z3.Int("k") if crash else None; base = fs.ops
    crashed = False
    try:
        T.BinnedTrees.build(patch, new)
    except Crash:
        crashed = True
    fs.crash_at = None
    # recovery: next use requests `req` (either old or new binning)
    req = new if bool(SB(z3.Bool("req_new"))) else old
    try:
        bt = T.BinnedTrees.build(patch, req)
        tok = bt.trees
    except Exception as e:
        return [("recovery-error-ok", z3.BoolVal(True))], fs.log
    want = ("trees-for", None if req is None else (tuple(req.edges), str(req.closed)))
    got = tok
    if (got[1] is None) != (want[1] is None): return [("token", z3.BoolVal(False))], fs.log
    if got[1] is None: return [("token", z3.BoolVal(True))], fs.log
    f = z3.And(*[(x == y).e for x, y in zip(got[1][0], want[1][0])], z3.BoolVal(got[1][1] == want[1][1]))
    return [("token", f)], fs.log
t = time.time()
eng, results = explore(run)
from collections import Counter
print("paths", len(results), Counter(r[0] for r in results), "%.1fs" % (time.time() - t))
bad = 0
for status, trace, out in results:
    if status != "ok": 
        import traceback; traceback.print_exception(out) if bad < 1 else None; bad += 1; continue
    obl, log = out
    pcs = [c if t_ else z3.Not(c) for c, t_ in trace]
    for name, f in obl:
        s = z3.Solver(); s.add(*pcs, z3.Not(f))
        if s.check() == z3.sat:
            bad += 1
            if bad <= 2: print("VIOL", name, s.model(), "\n  log:", log[-8:])
print("violations", bad)
seen=set()
for status, trace, out in results:
    if status != "ok" and status not in seen:
        seen.add(status); import traceback; traceback.print_exception(out)
