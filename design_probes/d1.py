import numpy as np, traceback, tempfile, os
from yaw.binning import Binning
from yaw.correlation.paircounts import *
from yaw.correlation.corrdata import CorrData
from yaw.redshifts import resample_jackknife
from yaw.config import Configuration
def t(name, f):
    try: print(name, "->", f())
    except Exception as e: print(name, "RAISES", type(e).__name__, e)
b = Binning([0.1,0.2,0.3])
pc = PatchedCounts(b, np.arange(18.).reshape(2,3,3), auto=False)
sw = PatchedSumWeights(b, np.ones((2,3)), np.ones((2,3)), auto=False)
nc = NormalisedCounts(pc, sw)
t("D6 nc*2", lambda: nc*2.0)
t("D7 pc.patches[0]", lambda: pc.patches[0].counts.shape)
t("D7 pc.patches[0:2]", lambda: pc.patches[0:2].counts.shape)
t("D7 iter", lambda: [p.counts.shape for p in pc.patches])
cd = CorrData(b, np.ones(2), np.ones((3,2)))
t("D8 cd+cd", lambda: cd+cd)
t("D12 jk", lambda: resample_jackknife(np.array([[1.],[10.],[100.]])).ravel())
d = tempfile.mkdtemp()
b1 = Binning([0.1,0.2]); c1 = CorrData(b1, np.ones(1), np.ones((3,1)))
c1.to_files(os.path.join(d,"x"))
t("D9 1bin", lambda: CorrData.from_files(os.path.join(d,"x")))
cfg = Configuration.create(rmin=100, rmax=1000, zmin=0.1, zmax=1.0, num_bins=3)
t("D21 eq", lambda: cfg == Configuration.create(rmin=100, rmax=1000, zmin=0.1, zmax=1.0, num_bins=3))
cc = Configuration.create(rmin=100, rmax=1000, edges=[0.1,0.5,1.0])
t("D20 modify custom closed", lambda: cc.modify(closed="left").binning.closed)
import astropy.cosmology
c2 = Configuration.create(rmin=100, rmax=1000, zmin=0.1, zmax=1.0, num_bins=3, method="comoving", cosmology="WMAP1")
t("D22", lambda: (c2.modify(num_bins=3).binning.edges - c2.binning.edges))
t("sw 1d", lambda: PatchedSumWeights(b, np.ones(2), np.ones(2), auto=False))
for m in ("linear","comoving","logspace"):
    c = Configuration.create(rmin=100, rmax=1000, zmin=0.07, zmax=1.43, num_bins=7, method=m)
    c3 = Configuration.from_dict(c.to_dict())
    print(m, "edges span", c.binning.edges[0]==0.07, c.binning.edges[-1]==1.43, "roundtrip identical", np.array_equal(c.binning.edges, c3.binning.edges))
