"""Prototype cooperative MPI world (probe)."""
import threading, sys, types, itertools

class Deadlock(Exception): pass
ANY = -1

class World:
    def __init__(self, size, choose, eager=True):
        self.size = size; self.choose = choose; self.eager = eager
        self.local = threading.local()
        self.pending = {}      # rank -> op dict (blocked)
        self.mail = []         # in-flight messages: dict(src,dst,tag,obj,seq)
        self.seq = itertools.count()
        self.done = {}; self.errors = {}
        self.cv = threading.Condition()
        self.running = None
        self.results = {}
    # --- called from rank threads
    def rank(self): return self.local.rank
    def _block(self, op):
        r = self.rank()
        with self.cv:
            op["result"] = None; op["ready"] = False
            self.pending[r] = op
            self.running = None
            self.cv.notify_all()
            while not op["ready"]:
                self.cv.wait()
        return op["result"]
    def send(self, obj, dest, tag):
        return self._block(dict(kind="send", obj=obj, dst=dest, tag=tag, src=self.rank()))
    def recv(self, source, tag):
        return self._block(dict(kind="recv", src=source, tag=tag, dst=self.rank()))
    def collective(self, name, value=None, root=0):
        return self._block(dict(kind="coll", name=name, value=value, root=root))
    # --- scheduler
    def run(self, target):
        threads = []
        def wrap(r):
            self.local.rank = r
            with self.cv:
                while self.running != r: self.cv.wait()
            try:
                self.results[r] = target(r)
            except BaseException as e:
                self.errors[r] = e
            with self.cv:
                self.done[r] = True; self.running = None; self.cv.notify_all()
        for r in range(self.size):
            t = threading.Thread(target=wrap, args=(r,), daemon=True); t.start(); threads.append(t)
        # start each rank until first block
        for r in range(self.size): self._resume(r)
        while len(self.done) < self.size:
            enabled = self._enabled()
            if not enabled:
                raise Deadlock({r: {k: v for k, v in op.items() if k in ("kind","src","dst","tag","name")} for r, op in self.pending.items()})
            act = enabled[self.choose(len(enabled))] if len(enabled) > 1 else enabled[0]
            act()
        return self.results
    def _resume(self, r):
        with self.cv:
            self.running = r; self.cv.notify_all()
            while self.running is not None: self.cv.wait()
    def _complete(self, r, result=None):
        op = self.pending.pop(r); op["result"] = result; op["ready"] = True
        self._resume_ready(r)
    def _resume_ready(self, r):
        with self.cv:
            self.running = r; self.cv.notify_all()
            while self.running is not None: self.cv.wait()
    def _enabled(self):
        acts = []
        # eager sends complete immediately (deterministic, not a choice): do them first
        for r, op in list(self.pending.items()):
            if op["kind"] == "send" and self.eager and not op.get("posted"):
                op["posted"] = True
                self.mail.append(dict(src=op["src"], dst=op["dst"], tag=op["tag"], obj=op["obj"], seq=next(self.seq)))
                return [lambda r=r: self._complete(r)]
        # receives: eligible = earliest message per (src) matching tag
        for r, op in self.pending.items():
            if op["kind"] != "recv": continue
            cands = {}
            for m in self.mail:
                if m["dst"] == r and m["tag"] == op["tag"] and (op["src"] in (ANY, m["src"])):
                    cands.setdefault(m["src"], m)   # non-overtaking: first per sender
            if not self.eager:
                for s, sop in self.pending.items():
                    if sop["kind"] == "send" and sop["dst"] == r and sop["tag"] == op["tag"] and op["src"] in (ANY, s):
                        cands.setdefault(s, sop)
            for s, m in sorted(cands.items()):
                def fire(r=r, m=m, s=s):
                    if m in self.mail: self.mail.remove(m); self._complete(r, m["obj"])
                    else: self._complete(r, m["obj"]); self._complete(s)
                acts.append(fire)
        # collectives: all live ranks pending same collective
        colls = [op for op in self.pending.values() if op["kind"] == "coll"]
        if colls and len(colls) == self.size - len(self.done) and len(self.done) == 0:
            def fire():
                name = colls[0]["name"]; root = colls[0]["root"]
                val = self.pending[root]["value"] if name == "bcast" else None
                for r in sorted(self.pending): 
                    if self.pending[r]["kind"] == "coll": self._complete(r, val)
            acts.append(fire)
        return acts

def install(world):
    MPI = types.SimpleNamespace()
    class Comm:
        def Get_size(self): return world.size
        def Get_rank(self): return world.rank()
        def send(self, obj, dest, tag=0): world.send(obj, dest, tag)
        def recv(self, source=ANY, tag=0): return world.recv(source, tag)
        def Barrier(self): world.collective("barrier")
        def bcast(self, value, root=0): return world.collective("bcast", value, root)
    MPI.COMM_WORLD = Comm(); MPI.ANY_SOURCE = ANY; MPI.UNDEFINED = -32766
    MPI.Get_processor_name = lambda: "node0"
    m = types.ModuleType("mpi4py"); m.MPI = MPI
    sys.modules["mpi4py"] = m; sys.modules["mpi4py.MPI"] = MPI
    return MPI
