import os, sys, numpy as np, pandas as pd, tempfile, shutil
os.environ["YAW_NUM_THREADS"] = sys.argv[2]
import yaw
from yaw import Catalog, AngularCoordinates
mode = sys.argv[1]
d = tempfile.mkdtemp(); cache = os.path.join(d, "cat")
rng = np.random.default_rng(1)
n = 40
df = pd.DataFrame(dict(ra=rng.uniform(0,10,n), dec=rng.uniform(0,10,n), pid=rng.integers(0,3,n)))
if mode == "nan":
    df.loc[25, "ra"] = np.nan
    try:
        c = Catalog.from_dataframe(cache, df, ra_name="ra", dec_name="dec", patch_name="pid", chunksize=10)
        print("returned", c)
    except Exception as e: print("RAISED", type(e).__name__, e)
elif mode == "exists":
    c0 = Catalog.from_dataframe(cache, df, ra_name="ra", dec_name="dec", patch_name="pid", chunksize=10)
    df2 = df.copy(); df2["ra"] += 100
    try:
        c = Catalog.from_dataframe(cache, df2, ra_name="ra", dec_name="dec", patch_name="pid", chunksize=10)
        print("returned; ra min", min(p.coords.ra.min() for p in c.values()))
    except Exception as e: print("RAISED", type(e).__name__, e)
elif mode == "emptycenter":
    centers = AngularCoordinates(np.deg2rad([[2.,5.],[200., -50.],[8.,5.]]))
    try:
        c = Catalog.from_dataframe(cache, df, ra_name="ra", dec_name="dec", patch_centers=centers, chunksize=10)
        print("returned ids", list(c.keys()), "centers", np.rad2deg(c.get_centers().data).round(1).tolist())
    except Exception as e: print("RAISED", type(e).__name__, e)
elif mode == "overwrite_nondir":
    os.makedirs(cache); open(os.path.join(cache, "precious.txt"), "w").write("x")
    try:
        c = Catalog.from_dataframe(cache, df, ra_name="ra", dec_name="dec", patch_name="pid", chunksize=10, overwrite=True)
        print("returned; precious exists:", os.path.exists(os.path.join(cache, "precious.txt")))
    except Exception as e: print("RAISED", type(e).__name__, e)
