#!/bin/bash
# builds the overlay interpreter: /venv's packages (incl. the editable yaw from /repo/src) + z3/crosshair/cvc5 from the offline wheelhouse
set -e
cd "$(dirname "$0")"
if [ -x .venv/bin/python ] && .venv/bin/python -c "import z3, crosshair, yaw, jsonschema" >/dev/null 2>&1; then
  echo "overlay venv present"; exit 0
fi
rm -rf .venv
/venv/bin/python -m venv .venv
SP=$(.venv/bin/python -c "import sysconfig; print(sysconfig.get_paths()['purelib'])")
echo "import site; site.addsitedir('/venv/lib/python3.12/site-packages')" > "$SP/_base.pth"
PIP_NO_INDEX=1 .venv/bin/pip install -q --no-index --find-links /opt/veriftools/wheels z3-solver crosshair-tool cvc5 jsonschema
.venv/bin/python -c "import z3, crosshair, yaw; print('overlay ok', z3.get_version_string())"
