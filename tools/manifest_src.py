HOOKS = dict(
    guard="YAW_VERIF",
    enable="no source hooks are needed: checks rebind names in their own process (module.np -> facade, sys.modules injection before import); YAW_VERIF=1 is exported by ./check for completeness",
    baseline_off_cmd="cd /repo && /venv/bin/python -m pytest -ra -q -p no:cacheprovider --timeout=900 --continue-on-collection-errors",
    source_commits=[],
    add_only=True,
)
ENGINES = [
    dict(name="symx", path="/verif/vf", serves_properties=[], kind_free_text="per-path symbolic execution of the real yaw code objects on numpy object arrays of z3 terms (vf/symx.py, vf/symnp.py, vf/uf.py); z3 5.1 discharge, cvc5 second opinion"),
    dict(name="crosshair", path="/verif/vf/crosshair_run.py", serves_properties=[], kind_free_text="CrossHair 0.0.110 symbolic execution of contract modules that drive the real reader classes"),
]
NOTES = "All checks: ./check <ID> --tier quick|thorough; exit 0 held / 1 VIOLATION (replayed on the unmodified code) / 3 inconclusive or harness error. float64 is modelled as exact reals everywhere; bounds per harness are written into the evidence files. See DESIGN.md."
_REAL = "float64 modelled as exact reals; shapes bounded as listed in evidence (harnesses[].bounds); trusted: z3, numpy object-array plumbing, vf.symnp kernels (differentially tested against numpy on every run)."
CHECKS = {
    "C01": dict(level="other", ref="DESIGN.md 4/C01",
        text="Chain of bounded symbolic lemmas over the real code: L1 AngularTree.count post-processing (limits, fine log grid, cumulative/per-bin dispatch, power-law weights, summation per scale) over a specification KD-tree with pair chords, weights, limits and exponent symbolic; L2a get_max_angle >= the angle used in every bin for an arbitrary increasing distance function; L2b from_catalogs never prunes a patch pair containing two objects closer than the pruning angle (centres/radii of all catalogs symbolic); L3 every linked pair visited once for every link relation; L4 process_patch_pair / count_pairs route bins, angles, halving and weight sums to the right cells.",
        note=_REAL + " scipy KDTree replaced by the documented count_neighbors contract (SpecTree); log10/10**x/x**a/sin/D_C(z) are uninterpreted functions with monotonicity / inverse axioms; linkage geometry restricted to a great circle; the whole-pipeline composition (L5) and KD-tree traversal are not covered.",
        technique="symbolic execution of real numpy code on object arrays of z3 reals with axiomatised uninterpreted functions + SMT discharge per path"),
    "C03": dict(level="other", ref="DESIGN.md 4/C03",
        text="Bounded symbolic proof over the real resampling code: for every real-valued content of the pair-count / weight / histogram arrays at the stated small shapes, z3 shows each jackknife sample equals the leave-patch-k-out statistic, the covariance equals the delete-one formula, is symmetric and PSD (sum-of-squares certificate), error^2 = diag. Counterexamples are replayed on the unmodified code before being reported.",
        note=_REAL + " Division-by-zero inputs excluded (side conditions). Worker arrival order is C05's subject.",
        technique="symbolic execution of real numpy code on object arrays of z3 reals + SMT (z3 nlsat) discharge per path"),
    "C04": dict(level="other", ref="DESIGN.md 4/C04",
        text="Bounded symbolic proof over the real CorrFunc.sample / landy_szalay / davis_peebles / RedshiftData.from_corrdata / normalised(): for every non-empty subset of {dr,rd,rr} x {auto,cross} and every real-valued content, value and each jackknife sample equal the documented formula built from explicit totals (auto normalisation = half the squared total weight); n(z)^2 dz^2 w_ss w_pp = w_sp^2 with the sign of w_sp; integral after normalisation = 1.",
        note=_REAL + " Denominators non-zero / radicands positive (side conditions); sqrt is an axiomatised uninterpreted function; normalised(target=...) and NaN handling outside the claim; RR-without-DR is not covered by the documented formula (error accepted).",
        technique="symbolic execution of real numpy code on object arrays of z3 reals + SMT (z3 nlsat) discharge per path"),
    "C14": dict(level="other", ref="DESIGN.md 4/C14",
        text="REAL-ARITHMETIC part of the property only: bounded symbolic proof over the real to_3d/from_3d/distance/mean/AngularDistances conversions with cos/sin/arccos/arcsin/sqrt as axiomatised uninterpreted functions: unit norm, coordinate round trip with RA in [0,2pi) incl. poles and RA=0, chord<->angle mutually inverse and strictly increasing on [0,pi]/[0,2], chord <= 2 for all unit vectors (no exception), distance symmetric, zero iff equal, chord^2 = 2-2p.q, mean = from_3d of the (weighted) vector average with RA in range.  The explicit floating-point error bounds and tiny/near-antipodal accuracy demanded by the statement are NOT decided (float + transcendentals cannot be encoded); a change that is exact over the reals but loses float precision is reported as inconclusive at best.",
        note=_REAL + " Trigonometric axioms (Pythagoras, signs, zeros, principal inverses, monotonicity, evenness, periodicity, special values) are trusted; % modelled on the window (-m,2m); distance/mean harnesses take the Euclidean unit vectors as inputs.",
        technique="symbolic execution of real numpy code with z3 reals and axiomatised uninterpreted trigonometric functions (nlsat + UF abstraction)"),
    "C15": dict(level="other", ref="DESIGN.md 4/C15",
        text="Bounded symbolic proof over the real configuration classes: for symbolic zmin/zmax/scale limits/exponent/custom edges and every engine-enumerated combination of method, closed side, unit, cosmology (default by name / non-default object) and modified parameter set: requested number of strictly increasing bins spanning exactly [zmin,zmax] with uniform spacing in the method's variable; angle = r*factor/D(z) for all 8 units; invalid parameters raise; modify == create(merged) attribute-wise and under ==, original untouched; equal parameters compare equal; dict round trip; a user CustomCosmology is accepted.",
        note=_REAL + " astropy (units, z_at_value, named cosmologies) replaced by uninterpreted D_C (strictly increasing, D_C(0)=0), D_A=D_C/(1+z), inverse z_at_value, ln/exp; float identity of regenerated edges is outside the claim; replays use real astropy cosmologies.",
        technique="symbolic execution of real Python/numpy code with z3 reals and axiomatised uninterpreted functions; finite options as solver choices"),
    "C17": dict(level="other", ref="DESIGN.md 4/C17",
        text="Bounded symbolic proof over the real container operators (+, sum(), *, ==), Indexer (int / slice / iteration, selection enumerated by the solver) and constructor shape checks: element-wise sums/products, invariance of sampled estimates under scaling, equality <=> structural equality, selections equal numpy slicing and commute with summation and sampling, malformed shapes/operands raise.",
        note=_REAL + " Non-contiguous fancy selections outside the claim.",
        technique="symbolic execution of real numpy code on object arrays of z3 reals + SMT discharge per path; selections as solver choices"),
    "C07": dict(level="model_checking", ref="DESIGN.md 4/C07",
        text="One inductive step instead of histories: from every cache state satisfying the invariant (trees.pkl built with the binning stored in the binning file: absent / unbinned / binned with symbolic edges and either closed side) and every request (unbinned / symbolic edges / closed side / force), the real BinnedTrees.build/__init__/binning_equal/Binning.__eq__/trees run symbolically on an in-memory file system; z3 proves the trees a measurement loads were built with exactly the requested binning and that the invariant holds again. Plus exhaustive enumeration of all 3-4 step histories through two Catalog handles on one cache.",
        note="File system / pickle modelled in memory (vf.stubs.fsmodel); build_trees replaced by a token recording its binning; edges modelled as reals; leafsize and external edits of the cache outside the claim.",
        technique="symbolic execution of the real cache logic over a modelled file system, inductive invariant, z3 discharge; finite histories as solver choices", ),
    "C08": dict(level="model_checking", ref="DESIGN.md 4/C08",
        text="The real cache-writing code (BinnedTrees.build, CatalogWriter/PatchWriter create and overwrite, Patch metadata, CorrData.to_files) runs on a file-system model whose crash index, surviving prefix of buffered writes and rmtree order are solver choices (one path per crash state, all enumerated); the real recovery code then runs on each surviving state and must raise or behave as completed / never started.",
        note="Crash = process kill (ordered persistence, buffered writes survive as any item prefix, no torn single write, no power-loss reordering); HDF5 writes not covered; data are small concrete arrays (the quantifier is the crash point); replays materialise the model state in a real directory.",
        technique="bounded model checking of the real I/O code against an in-memory file-system crash model; crash points enumerated as z3-checked choices"),
    "C10": dict(level="other", ref="DESIGN.md 4/C10",
        text="Bounded symbolic proof over the real build_trees (np.digitize + groupby + AngularTree) and _redshift_histogram: redshifts, weights and bin edges are solver variables, so values exactly on any inner/outer edge or outside the range are covered; z3 proves per-bin membership, record counts, weight sums and histogram counts equal the (lo,hi] / [lo,hi) rule for both closed sides, weighted and unweighted, and that empty bins or an empty patch raise nothing; trees and histogram agree.",
        note=_REAL + " KDTree replaced by a container; digitize/histogram/argsort/unique kernels re-implemented per numpy's documented rules (conformance-tested per run); objects <= 4, bins <= 3.",
        technique="symbolic execution of real numpy code on object arrays of z3 reals (forking comparisons) + SMT discharge per path"),
}
NOT_APPLICABLE = [dict(property_id=p, reason="check not built yet in this session (work in progress; see DESIGN.md section 8 build order)") for p in
    ["C02","C05","C06","C09","C11","C12","C13","C16","C18"]]
