HOOKS = dict(
    guard="YAW_VERIF",
    enable="no source hooks are needed: checks rebind names in their own process (module.np -> facade, sys.modules injection before import); YAW_VERIF=1 is exported by ./check for completeness",
    baseline_off_cmd="cd /repo && /venv/bin/python -m pytest -ra -q -p no:cacheprovider --timeout=900 --continue-on-collection-errors",
    source_commits=[],
    add_only=True,
)
ENGINES = [
    dict(name="symx", path="/verif/vf", serves_properties=[], kind_free_text="per-path symbolic execution of the real yaw code objects on numpy object arrays of z3 terms (vf/symx.py, vf/symnp.py, vf/uf.py); z3 5.1 discharge, cvc5 second opinion"),
    dict(name="crosshair", path="/verif/vf/crosshair_run.py", serves_properties=[], kind_free_text="CrossHair 0.0.110 symbolic execution of contract modules that drive the real reader classes"),
]
NOTES = "All checks: ./check <ID> --tier quick|thorough; exit 0 held / 1 VIOLATION (replayed on the unmodified code) / 3 inconclusive or harness error. float64 is modelled as exact reals everywhere; bounds per harness are written into the evidence files. See DESIGN.md."
_REAL = "float64 modelled as exact reals; shapes bounded as listed in evidence (harnesses[].bounds); trusted: z3, numpy object-array plumbing, vf.symnp kernels (differentially tested against numpy on every run)."
CHECKS = {
    "C03": dict(level="other", ref="DESIGN.md 4/C03",
        text="Bounded symbolic proof over the real resampling code: for every real-valued content of the pair-count / weight / histogram arrays at the stated small shapes, z3 shows each jackknife sample equals the leave-patch-k-out statistic, the covariance equals the delete-one formula, is symmetric and PSD (sum-of-squares certificate), error^2 = diag. Counterexamples are replayed on the unmodified code before being reported.",
        note=_REAL + " Division-by-zero inputs excluded (side conditions). Worker arrival order is C05's subject.",
        technique="symbolic execution of real numpy code on object arrays of z3 reals + SMT (z3 nlsat) discharge per path"),
}
NOT_APPLICABLE = [dict(property_id=p, reason="check not built yet in this session (work in progress; see DESIGN.md section 8 build order)") for p in
    ["C01","C02","C04","C05","C06","C07","C08","C09","C10","C11","C12","C13","C14","C15","C16","C17","C18"]]
