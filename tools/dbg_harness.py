#!/usr/bin/env python3
"""tools/dbg_harness.py <check module> <harness name substring> [max_paths] : explore one harness with a watchdog that
dumps the Python stack if it takes too long (debugging aid)."""
import faulthandler
import sys
import time

faulthandler.dump_traceback_later(int(sys.argv[4]) if len(sys.argv) > 4 else 60, exit=True)
import importlib

mod = importlib.import_module("checks." + sys.argv[1])
from vf import symnp
from vf.symx import explore

hs = [h for h in mod.harnesses("quick") if sys.argv[2] in h.name]
h = hs[0]
print("harness", h.name)


def fn(eng):
    inp = h.make_inputs(eng)
    eng.inputs = inp
    with symnp.install(*h.modules, shadow_float=h.shadow_float, extra=h.extra):
        return h.body(inp)


t = time.time()
eng, paths, ex = explore(fn, max_paths=int(sys.argv[3]) if len(sys.argv) > 3 else 100)
print("paths", len(paths), "exhaustive", ex, "%.1fs" % (time.time() - t), "queries", eng.queries)
from collections import Counter

print(Counter(p["kind"] for p in paths))
for p in paths:
    if p["kind"] in ("raise", "outside"):
        import traceback

        traceback.print_exception(p["exc"])
        break
