#!/bin/bash
# tools/try_seed.sh <patch.diff> <check id> [tier] : apply a seeded change to /repo, run the check, undo
set -u
P="$1"; ID="$2"; TIER="${3:-quick}"
cd /repo && git status --short | grep -q . && { echo "repo dirty"; exit 9; }
git -C /repo apply "$P" || { echo "patch does not apply"; exit 9; }
cd /verif && ./check "$ID" --tier "$TIER" 2>&1 | grep -E "^VIOLATION|^INCONCLUSIVE|^KNOWN|tier=" | cut -c1-250 | head -12
echo "exit=${PIPESTATUS[0]}"
git -C /repo checkout -- . 
