#!/usr/bin/env python3
"""prints the prompt for a mutation sub-agent: only the property text + its own worktree"""
import json, sys
pid = sys.argv[1]
wt = "/tmp/wt_" + pid
for l in open("/verif/properties.jsonl"):
    d = json.loads(l)
    if d["id"] == pid:
        break
print(f"""You are helping to evaluate how good a test/verification suite is at catching subtle bugs in the Python library `yet_another_wizz` (clustering redshifts: patch-cached catalogs, KDTree pair counting, jackknife resampling, MPI/multiprocessing parallelism).

Your scratch git worktree of the library is at {wt} (work ONLY there; do not touch /repo or /verif or anything else outside {wt}). Run python as `cd {wt} && PYTHONPATH={wt}/src /venv/bin/python ...` so that the worktree's sources are imported (check with `import yaw; print(yaw.__file__)`). The existing test suite is run with: `cd {wt} && PYTHONPATH={wt}/src /venv/bin/python -m pytest -q -p no:cacheprovider` (111 tests, all pass at the moment). There is no network.

Here is a semantic property that the library is supposed to satisfy:

TITLE: {d['title']}
STATEMENT: {d['statement']}
QUANTIFIED OVER: {d['quantifier']['text']}
RELEVANT FILES: {', '.join(d['anchors']['files'])}

TASK: produce TWO different, independent, realistic changes (bugs) to the library source under {wt}/src/yaw that each BREAK this property while the code still imports/compiles and the ENTIRE existing test suite still passes. Each should be the kind of mistake a developer could plausibly make during a refactoring or "optimisation" (off-by-one, wrong comparison, swapped argument, stale cache, missing case, wrong order of operations, ...). IMPORTANT: prefer changes that need something specific to manifest -- a particular input (e.g. a value exactly on a boundary, an empty bin/patch, a particular size relative to a chunk size), a particular configuration, a multi-step sequence of operations, a particular interleaving or completion order, a crash/fault at a particular point, or two cooperating sites that each look fine alone -- NOT changes that any ordinary use of the library would expose at once. The two changes should be in different functions (ideally different aspects of the property).

For each change i in (1, 2) deliver, inside {wt}/seed_out/:
  - patch{'{i}'}.diff : the change as a unified diff produced with `git -C {wt} diff` against the untouched worktree (only that one change; it must apply with `git apply` on a clean checkout);
  - demo{'{i}'}.py : a small self-contained program (plain python, run as `PYTHONPATH=<src> /venv/bin/python demo{'{i}'}.py`) that exits 0 and prints PASS on the unmodified library and exits non-zero (prints FAIL with an explanation) when the change is applied. It must demonstrate the violation of the property through the library's public behaviour, use temporary directories for any files, set YAW_NUM_THREADS as needed, and clean up after itself;
  - notes{'{i}'}.md : 5-10 lines: what was changed, why it breaks the property, what specific condition it needs in order to manifest, and the exact commands you ran (test suite with the change: all pass; demo without the change: PASS; demo with the change: FAIL).
Verify all of that yourself before finishing (apply patch -> run full test suite -> run demo -> `git -C {wt} checkout -- src` -> run demo again -> then the second change). Leave the worktree's src/ clean (no change applied) at the end; only seed_out/ should remain as untracked content. Do not add or edit tests in the tests/ directory. Finish with a short summary of the two changes.""")
