#!/usr/bin/env python3
"""tools/confirm_seed.py <PROP> <i> <name> : confirm a sub-agent's change in its scratch worktree and file it under seeded/<PROP>-<name>/"""
import json, os, shutil, subprocess, sys
prop, i, name = sys.argv[1], sys.argv[2], sys.argv[3]
wt = os.environ.get("SEED_WT", "/tmp/wt_" + prop)
src = os.environ.get("SEED_SRC", f"/verif/seeded/_incoming/{prop}")
env = dict(os.environ, PYTHONPATH=wt + "/src", YAW_NUM_THREADS=os.environ.get("YAW_NUM_THREADS", "1"))
def run(cmd, **k):
    return subprocess.run(cmd, shell=True, cwd=wt, env=env, capture_output=True, text=True, **k)
assert run("git status --short src").stdout.strip() == "", "worktree not clean"
r = run(f"git apply {src}/patch{i}.diff"); assert r.returncode == 0, r.stderr
t = run("/venv/bin/python -m pytest -q -p no:cacheprovider 2>&1 | tail -1")
d1 = run(f"/venv/bin/python {src}/demo{i}.py", timeout=600)
run("git checkout -- src")
d0 = run(f"/venv/bin/python {src}/demo{i}.py", timeout=600)
ok = ("111 passed" in t.stdout) and d1.returncode != 0 and d0.returncode == 0
print("tests:", t.stdout.strip(), "| demo with change rc=%d | without rc=%d | confirmed=%s" % (d1.returncode, d0.returncode, ok))
if not ok:
    print(d1.stdout[-500:], d1.stderr[-500:], d0.stdout[-300:], d0.stderr[-300:]); sys.exit(1)
dst = f"/verif/seeded/{prop}-{name}"
os.makedirs(dst, exist_ok=True)
shutil.copy(f"{src}/patch{i}.diff", dst + "/patch.diff")
shutil.copy(f"{src}/demo{i}.py", dst + "/demo.py")
notes = open(f"{src}/notes{i}.md").read()
meta = dict(property=prop, name=name, breaks=notes.strip().splitlines()[0][:300], needs_to_manifest="see notes", notes=notes,
            confirmed=dict(tests_with_change=t.stdout.strip(), demo_with_change_rc=d1.returncode, demo_without_change_rc=d0.returncode,
                           commands=[f"git apply patch.diff (in scratch worktree {wt})", "pytest -q -p no:cacheprovider", "python demo.py", "git checkout -- src", "python demo.py"]),
            detected_by=None)
json.dump(meta, open(dst + "/meta.json", "w"), indent=1)
print("filed", dst)
