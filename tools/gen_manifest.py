#!/usr/bin/env python3
"""Regenerates MANIFEST.json from tools/manifest_src.py (single source of truth)."""
import json, os, sys
sys.path.insert(0, os.path.dirname(os.path.abspath(__file__)))
import manifest_src as M
here = os.path.dirname(os.path.dirname(os.path.abspath(__file__)))
man = dict(version=1, setup_cmd="bash setup.sh", hooks=M.HOOKS, engines=M.ENGINES, checks=[], notes=M.NOTES, not_applicable=M.NOT_APPLICABLE)
for pid, c in sorted(M.CHECKS.items()):
    man["checks"].append(dict(
        property_id=pid,
        quick_cmd="./check %s --tier quick" % pid,
        thorough_cmd="./check %s --tier thorough" % pid,
        evidence_file="/verif/evidence/%s.json" % pid,
        replay_cmd_template="./check %s --replay {path}" % pid,
        engine=c.get("engine", "symx"),
        level_claimed=dict(category=c["level"], text=c["text"], design_ref=c["ref"]),
        level_note=c["note"],
        technique=c["technique"],
    ))
claimed = set(M.CHECKS)
na = {x["property_id"] for x in M.NOT_APPLICABLE}
allp = [json.loads(l)["id"] for l in open(os.path.join(here, "properties.jsonl"))]
assert claimed | na == set(allp) and not (claimed & na), (sorted(set(allp) - claimed - na), sorted(claimed & na))
import jsonschema
jsonschema.validate(man, json.load(open("/root/.vp/MANIFEST.schema.json")))
json.dump(man, open(os.path.join(here, "MANIFEST.json"), "w"), indent=1)
print("MANIFEST.json written:", len(man["checks"]), "checks,", len(na), "not applicable")
