#!/usr/bin/env python3
"""tools/run_seeds.py [name-substring] [--tier quick] : apply every seeded change to /repo, run the checks of MANIFEST (the seed's own
property first, optionally more via meta['also']), undo, and record the outcome in seeded/<name>/meta.json (detected_by)."""
import glob, json, os, subprocess, sys
sub = sys.argv[1] if len(sys.argv) > 1 and not sys.argv[1].startswith("--") else ""
claimed = {c["property_id"] for c in json.load(open("/verif/MANIFEST.json"))["checks"]}
assert subprocess.run("git -C /repo status --short", shell=True, capture_output=True, text=True).stdout.strip() == "", "repo dirty"
rows = []
for d in sorted(glob.glob("/verif/seeded/*/")):
    name = os.path.basename(d.rstrip("/"))
    if name.startswith("_") or sub not in name:
        continue
    meta = json.load(open(d + "meta.json"))
    props = [meta["property"]] + meta.get("also", [])
    r = subprocess.run(["git", "-C", "/repo", "apply", d + "patch.diff"], capture_output=True, text=True)
    if r.returncode:
        rows.append((name, "PATCH DOES NOT APPLY")); continue
    det = {}
    try:
        for p in props:
            if p not in claimed:
                det[p] = "no check"; continue
            c = subprocess.run(["./check", p, "--tier", "quick"], cwd="/verif", capture_output=True, text=True)
            viol = [l for l in c.stdout.splitlines() if l.startswith("VIOLATION")]
            det[p] = {0: "MISSED (exit 0)", 1: "VIOLATION x%d" % len(viol), 3: "inconclusive (exit 3)"}.get(c.returncode, "exit %d" % c.returncode)
    finally:
        subprocess.run("git -C /repo checkout -- .", shell=True)
    meta["detected_by"] = det
    json.dump(meta, open(d + "meta.json", "w"), indent=1)
    rows.append((name, det))
for r in rows:
    print(r[0], r[1])
