#!/usr/bin/env python3
"""tools/reconfirm_seeds.py : re-confirm every filed seed against the CURRENT /repo HEAD in one scratch worktree
(patch applies, 111 tests pass with it, demo fails with it and passes without it); updates meta.json['confirmed_at_head']."""
import glob, json, os, subprocess, sys
wt = "/tmp/wt_reconfirm"
subprocess.run(["git", "-C", "/repo", "worktree", "remove", "--force", wt], capture_output=True)
subprocess.check_call(["git", "-C", "/repo", "worktree", "add", "-q", "--detach", wt, "HEAD"])
subprocess.check_call(["cp", "/repo/src/yaw/_version.py", wt + "/src/yaw/_version.py"])
head = subprocess.check_output(["git", "-C", "/repo", "rev-parse", "--short", "HEAD"], text=True).strip()
env = dict(os.environ, PYTHONPATH=wt + "/src", YAW_NUM_THREADS="1")
def run(cmd, timeout=900):
    try:
        return subprocess.run(cmd, shell=True, cwd=wt, env=env, capture_output=True, text=True, timeout=timeout)
    except subprocess.TimeoutExpired:
        return subprocess.CompletedProcess(cmd, 124, "", "timeout")
sub = sys.argv[1] if len(sys.argv) > 1 else ""
for d in sorted(glob.glob("/verif/seeded/*/")):
    name = os.path.basename(d.rstrip("/"))
    if name.startswith("_") or sub not in name:
        continue
    meta = json.load(open(d + "meta.json"))
    r = run("git apply %spatch.diff" % d)
    if r.returncode:
        meta["confirmed_at_head"] = dict(head=head, ok=False, why="patch does not apply")
    else:
        t = run("/venv/bin/python -m pytest -q -p no:cacheprovider 2>&1 | tail -1")
        d1 = run("/venv/bin/python %sdemo.py" % d)
        run("git checkout -- src")
        d0 = run("/venv/bin/python %sdemo.py" % d)
        ok = "111 passed" in t.stdout and d1.returncode != 0 and d0.returncode == 0
        meta["confirmed_at_head"] = dict(head=head, ok=ok, tests=t.stdout.strip(), demo_with_change_rc=d1.returncode, demo_without_change_rc=d0.returncode)
    run("git checkout -- src")
    json.dump(meta, open(d + "meta.json", "w"), indent=1)
    print(name, meta["confirmed_at_head"], flush=True)
subprocess.run(["git", "-C", "/repo", "worktree", "remove", "--force", wt])
