#!/bin/bash
# tools/run_all.sh [quick|thorough] : run every registered check sequentially on the current /repo tree, print one line each
TIER="${1:-quick}"
cd "$(dirname "$0")/.."
for id in $(python3 -c "import json;print(' '.join(c['property_id'] for c in json.load(open('MANIFEST.json'))['checks']))"); do
  s=$(date +%s)
  out=$(timeout 7200 ./check $id --tier $TIER 2>&1); rc=$?
  e=$(date +%s)
  echo "$id rc=$rc wall=$((e-s))s $(echo "$out" | grep -c '^VIOLATION') violations $(echo "$out" | grep -c '^INCONCLUSIVE') inconclusive $(echo "$out" | grep -c '^KNOWN-FINDING') known | $(echo "$out" | tail -1 | cut -c1-150)"
  echo "$out" | grep -E '^INCONCLUSIVE|^VIOLATION' | head -5 | cut -c1-220
done
