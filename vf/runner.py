"""Generic driver: explore harnesses, discharge obligations, replay counterexamples
against the unmodified code, apply known findings, write evidence, print verdict."""
from __future__ import annotations

import fnmatch as _fn
import hashlib
import inspect
import json
import os
import shutil
import sys
import time
import traceback

import numpy as np
import z3

from vf import symnp
from vf.symx import (
    SB,
    SV,
    BudgetExceeded,
    Engine,
    concretise,
    discharge,
    explore,
    is_symbolic,
    model_value,
)

ROOT = os.path.dirname(os.path.dirname(os.path.abspath(__file__)))
EXIT_OK, EXIT_VIOLATION, EXIT_INCONCLUSIVE = 0, 1, 3


STUB_MARKERS = ("Fake", "'Rec'", "Token", "ModelPatch", "SimpleNamespace", "LinePoints", "XYZCoords", "SpecTree", "H5Group",
                "H5Dataset", "FakePath", "FakeFile", "'Frame'", "'Col'", "'Cat'", "'T' object", "UFCosmology", "UFCustom", "fsmodel")


class Check:
    """One assertion produced by a harness body.

    kind 'eq'   : lhs == rhs element-wise (arrays / scalars, symbolic or float)
    kind 'true' : cond holds (SB / bool / z3 Bool)
    """

    def __init__(self, name, lhs=None, rhs=None, cond=None, hints=(), tol=1e-9):
        self.name, self.lhs, self.rhs, self.cond, self.hints, self.tol = name, lhs, rhs, cond, list(hints), tol

    def formula(self):
        if self.cond is not None:
            return _as_bool_term(self.cond)
        a = np.asarray(self.lhs, dtype=object)
        b = np.asarray(self.rhs, dtype=object)
        if a.shape != b.shape:
            return z3.BoolVal(False)
        fs = []
        for i in np.ndindex(*a.shape):
            x, y = a[i], b[i]
            if isinstance(x, SV) or isinstance(y, SV):
                r = (x == y) if isinstance(x, SV) else (y == x)
                fs.append(r.e if isinstance(r, SB) else z3.BoolVal(bool(r)))
            elif isinstance(x, SB) or isinstance(y, SB):
                r = (x == y) if isinstance(x, SB) else (y == x)
                fs.append(r.e)
            else:
                fs.append(z3.BoolVal(_close(x, y, self.tol)))
        return z3.And(*fs) if fs else z3.BoolVal(True)

    def holds_concretely(self):
        if self.cond is not None:
            c = self.cond
            if isinstance(c, np.ndarray):
                return bool(np.all(c))
            return bool(c)
        try:
            a = np.asarray(self.lhs, dtype=float)
            b = np.asarray(self.rhs, dtype=float)
        except (TypeError, ValueError):
            return self.lhs == self.rhs
        if a.shape != b.shape:
            return False
        return bool(np.all(_close_arr(a, b, self.tol)))


def _close(x, y, tol):
    try:
        x, y = float(x), float(y)
    except (TypeError, ValueError):
        return x == y
    if x != x and y != y:
        return True
    return abs(x - y) <= tol * max(1.0, abs(x), abs(y))


def _close_arr(a, b, tol):
    with np.errstate(invalid="ignore"):
        return (np.abs(a - b) <= tol * np.maximum(1.0, np.maximum(np.abs(a), np.abs(b)))) | (np.isnan(a) & np.isnan(b)) | (a == b)


def _as_bool_term(c):
    if isinstance(c, SB):
        return c.e
    if isinstance(c, (bool, np.bool_)):
        return z3.BoolVal(bool(c))
    if z3.is_expr(c):
        return c
    if isinstance(c, np.ndarray):
        return z3.And(*[_as_bool_term(v) for v in c.ravel()]) if c.size else z3.BoolVal(True)
    if isinstance(c, (list, tuple)):
        return z3.And(*[_as_bool_term(v) for v in c]) if c else z3.BoolVal(True)
    raise TypeError("cannot turn %r into a formula" % type(c))


class Harness:
    """Base class.  Subclasses define:
    name, modules (yaw modules whose `np` is rebound), functions (real code objects encoded),
    make_inputs(eng) -> dict of symbolic inputs (may call eng.assume),
    body(inp) -> list[Check]   (dual mode: inp symbolic or float),
    bounds (str), assumptions (list[str]).
    Optional: expect_vacuous=False, xval=True, twin_of=None, must_fail=False (sensitivity twin)
    """

    name = "harness"
    modules = ()
    functions = ()
    bounds = ""
    assumptions = ()
    xval = True
    must_fail = False  # sensitivity / reachability twin: at least one obligation must be sat
    max_paths = 20000
    shadow_float = True
    extra = None

    def make_inputs(self, eng):
        raise NotImplementedError

    def body(self, inp):
        raise NotImplementedError

    def concrete_inputs(self, m, inp):
        return concretise(m, inp)

    # harnesses may override to widen / skip replay
    def replay(self, cinp, what):
        """Run body on concrete inputs with unpatched modules.
        Returns (reproduced: bool, observed: str)."""
        try:
            checks = self.body(cinp)
        except Exception as e:  # noqa
            if what.startswith("raise:") and type(e).__name__ == what.split(":", 1)[1]:
                return True, "raised %s: %s" % (type(e).__name__, e)
            return (what.startswith("raise:")), "raised %s: %s" % (type(e).__name__, e)
        if what.startswith("raise:"):
            return False, "no exception on the concrete run"
        for c in checks:
            if c.name == what:
                ok = c.holds_concretely()
                if ok:
                    return False, "check holds concretely"
                return True, "lhs=%s rhs=%s" % (_short(c.lhs), _short(c.rhs)) if c.cond is None else "condition false"
        return False, "check %s not produced on the concrete run" % what


def _short(x):
    s = np.array2string(np.asarray(x, dtype=object), threshold=20, precision=8) if not isinstance(x, str) else x
    return s if len(s) < 400 else s[:400] + "..."


class Assignment:
    """model-like object: explicit values for the input symbols; everything else evaluated by substitution"""

    def __init__(self, pairs):
        self.pairs = pairs

    def eval(self, e, model_completion=True):
        return z3.simplify(z3.substitute(e, *self.pairs))

    def value(self, e):
        from vf.zeval import feval
        from vf.symx import _num

        if not hasattr(self, "_env"):
            self._env = {v.get_id(): (lambda n: int(n) if isinstance(n, int) else float(n))(_num(c)) for v, c in self.pairs}
            self._keep = []
            self._cache = {}
        self._keep.append(e)  # keep terms alive so that ids stay unique
        return feval(e, self._env, self._cache)


def _input_symbols(inputs):
    syms = []

    def walk(x):
        if isinstance(x, SV):
            if z3.is_const(x.e) and x.e.decl().kind() == z3.Z3_OP_UNINTERPRETED:
                syms.append(x.e)
        elif isinstance(x, np.ndarray) and x.dtype.names:
            for n in x.dtype.names:
                walk(x[n])
        elif isinstance(x, np.ndarray) and x.dtype == object:
            for v in x.ravel():
                walk(v)
        elif isinstance(x, dict):
            for v in x.values():
                walk(v)
        elif isinstance(x, (list, tuple)):
            for v in x:
                walk(v)

    walk(inputs)
    seen, out = set(), []
    for v in syms:
        if v.get_id() not in seen:
            seen.add(v.get_id())
            out.append(v)
    return out


def _nice_model(eng, pc, extra, inputs, m0=None, timeout_ms=4000):
    """Prefer a model in which all symbolic input scalars are small dyadic rationals (exact in float64):
    round a solver model and re-validate every constraint by substitution (no solver call)."""
    import fractions

    syms = _input_symbols(inputs)
    if m0 is None:
        m0 = _any_model(eng, list(pc) + list(extra))
        if m0 is None:
            return None
    constraints = list(pc) + list(extra)
    if any(z3.is_fp(v) for v in syms):
        return m0  # float64 model: the solver's binary64 values are the counterexample as they are
    for denom in (1, 4, 64, 4096):
        pairs = []
        for v in syms:
            val = model_value(m0, v)
            if v.sort() == z3.RealSort():
                fr = fractions.Fraction(round(float(val) * denom), denom)
                pairs.append((v, z3.RealVal(str(fr))))
            else:
                pairs.append((v, z3.IntVal(int(val))))
        a = Assignment(pairs)
        try:
            if all(z3.is_true(a.eval(c)) for c in constraints):
                return a
        except z3.Z3Exception:
            break
    return m0


class Result:
    def __init__(self):
        self.violations = []  # dicts
        self.known = []
        self.inconclusive = []
        self.stats = dict(
            paths=0, ok=0, raised=0, outside=0, infeasible=0, obligations=0, discharged=0, sat=0, unknown=0,
            queries=0, solver_s=0.0, xval=0, distinct=set(), backends={}, twins_ok=0, twins=0,
        )
        self.samples = []
        self.harness_rows = []
        self.functions = {}


def run_harness(h: Harness, res: Result, *, tier, timeout_ms, seed, known, prop, replay_dir):
    from vf import symx

    symx.FP_MODE = bool(getattr(h, "fp", False))  # float64 harnesses: goals go to the QF_FP tactic
    try:
        return _run_harness(h, res, tier=tier, timeout_ms=timeout_ms, seed=seed, known=known, prop=prop, replay_dir=replay_dir)
    finally:
        symx.FP_MODE = False


def _run_harness(h: Harness, res: Result, *, tier, timeout_ms, seed, known, prop, replay_dir):
    t0 = time.time()
    mods = list(h.modules)

    def fn(eng):
        inp = h.make_inputs(eng)
        eng.inputs = inp
        with symnp.install(*mods, shadow_float=h.shadow_float, extra=h.extra):
            return h.body(inp)

    try:
        eng, paths, exhaustive = explore(fn, max_paths=h.max_paths, timeout_ms=min(timeout_ms, 20000),  # feasibility only: unknown = explored
                                         budget_s=(150 if tier == "quick" else 1800))
    except BudgetExceeded as e:
        res.inconclusive.append("%s: %s" % (h.name, e))
        return
    row = dict(harness=h.name, paths=len(paths), exhaustive=exhaustive, bounds=h.bounds, kinds={}, obligations=0,
               discharged=0, must_fail=h.must_fail)
    if not exhaustive:
        res.inconclusive.append("%s: path budget exhausted after %d paths" % (h.name, len(paths)))
    sat_seen = False
    n_xval = 0
    v0, i0 = len(res.violations), len(res.inconclusive)
    for pi, p in enumerate(paths):
        if not h.must_fail and (sum(v.get("count", 1) for v in res.violations[v0:]) >= 6 or len(res.inconclusive) - i0 >= 12):
            res.notes = getattr(res, "notes", []) + ["%s: stopped after %d of %d paths (enough counterexamples)" % (h.name, pi, len(paths))]
            break
        res.stats["paths"] += 1
        row["kinds"][p["kind"]] = row["kinds"].get(p["kind"], 0) + 1
        if p["kind"] == "infeasible":
            res.stats["infeasible"] += 1
            continue
        if p["kind"] == "outside":
            res.stats["outside"] += 1
            if not h.must_fail:
                res.inconclusive.append("%s: path %d left the model: %s" % (h.name, pi, p["exc"]))
            continue
        inputs = None
        if p["kind"] == "raise":
            res.stats["raised"] += 1
            if h.must_fail:
                sat_seen = True
                continue
            # an exception caused by a stand-in object of the harness lacking something the code now uses is a
            # harness limitation, not a property violation
            msg = str(p["exc"])
            if isinstance(p["exc"], (AttributeError, TypeError, NotImplementedError)) and any(k in msg for k in STUB_MARKERS):
                res.inconclusive.append("%s: the code used a facility the harness stand-in does not model: %s" % (h.name, msg[:160]))
                continue
            # unexpected exception on a feasible path -> candidate violation
            what = "raise:" + type(p["exc"]).__name__
            inputs = p["inputs"]
            m = _nice_model(eng, p["pc"], [], inputs) or _any_model(eng, p["pc"])
            _handle_cex(h, res, prop, what, m, inputs, known, replay_dir, detail="".join(
                traceback.format_exception_only(type(p["exc"]), p["exc"])).strip(), exc=p["exc"])
            continue
        res.stats["ok"] += 1
        checks = p["result"] or []
        obls = [(c.name, c.formula()) for c in checks]
        hints = [hh for c in checks for hh in c.hints]
        vs = discharge(eng, p, obls, timeout_ms=timeout_ms, hints=hints)
        for c, v in zip(checks, vs):
            if os.environ.get("VF_VERBOSE"):
                print("  [%s] path %d %s: %s %.2fs %s" % (h.name, pi, c.name, v.status, v.seconds, v.backend), flush=True)
            res.stats["obligations"] += 1
            row["obligations"] += 1
            res.stats["backends"][v.backend] = res.stats["backends"].get(v.backend, 0) + 1
            if v.backend != "simplify":
                res.stats["distinct"].add(hashlib.sha1((v.formula.sexpr()).encode()).hexdigest())
            if v.status == "unsat":
                res.stats["discharged"] += 1
                row["discharged"] += 1
                if len(res.samples) < 4 and v.backend != "simplify" and not h.must_fail:
                    res.samples.append(dict(harness=h.name, obligation=c.name, path=pi,
                                            path_condition=[str(x)[:200] for x in p["pc"][:6]],
                                            negated_goal_smt2=z3.Not(v.formula).sexpr()[:600], verdict="unsat",
                                            backend=v.backend, seconds=round(v.seconds, 4)))
            elif v.status == "sat":
                res.stats["sat"] += 1
                sat_seen = True
                if h.must_fail:
                    continue
                if inputs is None:
                    inputs = p["inputs"]
                m = _nice_model(eng, p["pc"], [z3.Not(v.formula)] + hints, inputs, m0=v.model) or v.model
                _handle_cex(h, res, prop, c.name, m, inputs, known, replay_dir, detail="obligation refuted by solver")
            else:
                res.stats["unknown"] += 1
                if not h.must_fail:
                    res.inconclusive.append("%s: obligation %s unknown on path %d" % (h.name, c.name, pi))
        # cross-validate a sample of paths against the unpatched implementation
        if h.xval and not h.must_fail and n_xval < (2 if tier == "quick" else 6) and (pi % max(1, len(paths) // 6) == 0):
            if inputs is None:
                inputs = p["inputs"]
            m = _nice_model(eng, p["pc"], [], inputs) or _any_model(eng, p["pc"])
            if m is not None:
                ok, why = _cross_validate(h, m, inputs, checks)
                if ok:
                    n_xval += 1
                    res.stats["xval"] += 1
                elif ok is False:
                    res.inconclusive.append("%s: cross-validation mismatch on path %d: %s" % (h.name, pi, why))
    if h.must_fail:
        res.stats["twins"] += 1
        if sat_seen:
            res.stats["twins_ok"] += 1
        else:
            res.inconclusive.append("%s: twin did not fail -- harness is vacuous or insensitive" % h.name)
    res.stats["queries"] += eng.queries
    res.stats["solver_s"] += eng.solver_time
    row["wall_s"] = round(time.time() - t0, 2)
    row["axioms"] = len(eng.axioms)
    if os.environ.get("VF_PROGRESS"):
        print("  .. %s: %d paths, %d obligations, %.1fs%s" % (h.name, len(paths), row["obligations"], row["wall_s"],
                                                                 "" if exhaustive else " NOT EXHAUSTIVE"), file=sys.stderr, flush=True)
    res.harness_rows.append(row)
    for f in h.functions:
        try:
            src = inspect.getsource(f)
            res.functions[getattr(f, "__module__", "?") + "." + getattr(f, "__qualname__", str(f))] = hashlib.sha256(src.encode()).hexdigest()[:16]
        except (OSError, TypeError):
            pass


def _inputs_of(eng, fn, p):
    # inputs are rebuilt deterministically by re-running make_inputs on a scratch engine is unnecessary:
    # the engine kept the dict of the *last* run only, so rebuild by replaying this path's decisions.
    Engine.cur = eng
    eng.prefix = [t for _, t, _ in p["trace"]]
    eng.trace = []
    eng.choices = []
    try:
        try:
            fn(eng)
        except BaseException:
            pass
        return eng.inputs
    finally:
        Engine.cur = None


def _any_model(eng, pc):
    from vf import symx
    from vf.symx import _solve

    goal = list(pc) + list(eng.axioms)
    if symx.FP_MODE:
        r, m, _, _ = symx._strategies(goal, 20000)
        return m if r == z3.sat else None
    r, m, _ = _solve(goal, 2000)
    if r == z3.sat:
        return m
    if r == z3.unsat:
        return None
    try:
        r, m, _ = _solve(goal, 5000, tactic="qfnra-nlsat")
        if r == z3.sat:
            return m
        if r == z3.unsat:
            return None
    except z3.Z3Exception:
        pass
    r, m, _ = _solve(goal, 20000)
    return m if r == z3.sat else None


def _cross_validate(h, m, inputs, checks):
    """run the unpatched code on the model's inputs; its lhs values must equal the symbolic lhs under the model"""
    try:
        cinp = h.concrete_inputs(m, inputs)
        cchecks = h.body(cinp)
    except Exception as e:  # noqa
        return False, "concrete run raised %s: %s" % (type(e).__name__, e)
    by = {c.name: c for c in cchecks}
    for c in checks:
        if c.cond is not None or c.name not in by:
            continue
        try:
            sym_l = np.asarray(concretise(m, np.asarray(c.lhs, dtype=object)), dtype=float)
            con_l = np.asarray(by[c.name].lhs, dtype=float)
        except (TypeError, ValueError):
            continue
        if sym_l.shape != con_l.shape or not np.all(_close_arr(sym_l, con_l, 1e-7)):
            return False, "%s: symbolic %s vs concrete %s" % (c.name, _short(sym_l), _short(con_l))
    return True, ""


def _signature(h, what, exc=None):
    if exc is not None:
        tb = exc.__traceback__
        site = "?"
        while tb is not None:
            fr = tb.tb_frame
            if "/yaw/" in fr.f_code.co_filename:
                site = "%s:%s" % (os.path.basename(fr.f_code.co_filename), fr.f_code.co_name)
            tb = tb.tb_next
        return "%s@%s" % (type(exc).__name__, site)
    return what


def _handle_cex(h, res, prop, what, m, inputs, known, replay_dir, detail="", exc=None):
    if m is None:
        res.inconclusive.append("%s: no model available for %s" % (h.name, what))
        return
    try:
        cinp = h.concrete_inputs(m, inputs)
    except Exception as e:  # noqa
        res.inconclusive.append("%s: cannot concretise counterexample for %s: %s" % (h.name, what, e))
        return
    try:
        reproduced, observed = h.replay(cinp, what)
    except Exception as e:  # noqa
        res.inconclusive.append("%s: replay crashed for %s: %s" % (h.name, what, e))
        return
    if not reproduced:
        if os.environ.get("VF_VERBOSE"):
            print("  non-reproduced cex %s/%s inputs=%s" % (h.name, what, _jsonable(cinp)), flush=True)
        res.inconclusive.append("%s: counterexample for %s did not reproduce on the real code (%s)" % (h.name, what, observed))
        return
    sig = _signature(h, what, exc)
    for kf in known:
        if kf.get("status") == "recorded" and kf["property"] == prop and _fn.fnmatchcase(h.name, kf["harness"]) and kf["signature"] == sig:
            if kf not in res.known:
                res.known.append(kf)
            return
    # de-duplicate identical signatures within one harness
    for v in res.violations:
        if v["harness"] == h.name and v["signature"] == sig:
            v["count"] += 1
            return
    os.makedirs(replay_dir, exist_ok=True)
    path = os.path.join(replay_dir, "%s_%s_%s.json" % (prop, h.name, hashlib.sha1(sig.encode()).hexdigest()[:8]))
    rec = dict(property=prop, harness=h.name, obligation=what, signature=sig, detail=detail, observed=observed,
               inputs=_jsonable(cinp), count=1)
    with open(path, "w") as f:
        json.dump(rec, f, indent=1)
    rec["path"] = path
    res.violations.append(rec)


def _jsonable(x):
    if isinstance(x, dict):
        return {str(k): _jsonable(v) for k, v in x.items()}
    if isinstance(x, np.ndarray):
        if x.dtype.names:
            return {n: _jsonable(x[n]) for n in x.dtype.names}
        return _jsonable(x.tolist())
    if isinstance(x, (list, tuple)):
        return [_jsonable(v) for v in x]
    if isinstance(x, (np.floating, np.integer, np.bool_)):
        return x.item()
    if isinstance(x, (int, float, str, bool)) or x is None:
        return x
    return repr(x)


def load_known():
    p = os.path.join(ROOT, "known_findings.json")
    if not os.path.exists(p):
        return []
    with open(p) as f:
        return json.load(f).get("findings", [])


def main(prop, harness_factory, *, level, explanation, assumptions, trusted_base, argv=None, extra_evidence=None,
         pre=None, post=None):
    """harness_factory(tier) -> list[Harness].  `pre`/`post` are optional callables(res, tier) for non-symx parts."""
    import argparse

    ap = argparse.ArgumentParser()
    ap.add_argument("--tier", default=os.environ.get("VERIF_TIER", "quick"))
    ap.add_argument("--replay", default=None)
    ap.add_argument("--only", default=None)
    ap.add_argument("--child", type=int, default=None, help="internal: run harness number CHILD only and pickle the result")
    ap.add_argument("--child-out", default=None)
    a = ap.parse_args(argv)
    tier = a.tier if a.tier in ("quick", "thorough") else "quick"
    seed = int(os.environ.get("VERIF_SEED", "0") or 0)
    t0 = time.time()
    import warnings

    warnings.simplefilter("ignore")
    np.seterr(all="ignore")
    known = load_known()
    res = Result()
    replay_dir = os.path.join(ROOT, "replays")
    hs = harness_factory(tier)
    if a.only:
        hs = [h for h in hs if a.only in h.name]

    if a.replay:
        return replay_file(a.replay, hs, prop)

    timeout_ms = 20000 if tier == "quick" else 120000
    total_budget = float(os.environ.get("VF_TOTAL_BUDGET_S", 900 if tier == "quick" else 6 * 3600))

    def run_one(h, into):
        try:
            run_harness(h, into, tier=tier, timeout_ms=timeout_ms, seed=seed, known=known, prop=prop, replay_dir=replay_dir)
        except Exception as e:  # engine / harness bug -> inconclusive, never a violation
            into.inconclusive.append("%s: harness error %s: %s" % (h.name, type(e).__name__, e))
            traceback.print_exc()

    if a.child is not None:  # worker process of a parallel run: one harness, result handed back as a pickle
        import pickle

        run_one(hs[a.child], res)
        with open(a.child_out, "wb") as f:
            pickle.dump(res, f)
        return EXIT_OK

    nconf = 0
    try:
        nconf = symnp.conformance(seed)
    except AssertionError as e:
        res.inconclusive.append("shim conformance failed: %s" % (e,))
    jobs = int(os.environ.get("VF_JOBS", "0") or 0) or min(16, os.cpu_count() or 1)
    if jobs > 1 and len(hs) > 1:
        # every harness in its own interpreter: no solver state leaks from one harness into the next (z3's NRA heuristics
        # depend on the history of the process), and the harnesses of a check run side by side
        _run_parallel(prop, hs, res, a, tier, jobs, total_budget, t0, pre)
    else:
        if pre:
            pre(res, tier)
        for h in hs:
            if time.time() - t0 > total_budget:
                res.inconclusive.append("%s: not run -- the time budget of this tier (%ds) was used up by earlier harnesses" % (h.name, total_budget))
                continue
            run_one(h, res)
    if post:
        post(res, tier)
    wall = time.time() - t0
    st = res.stats
    distinct = len(st["distinct"])
    cov = dict(
        explanation=explanation,
        technique="per-path symbolic execution of the real code objects (symx/symnp) + z3 %s discharge" % z3.get_version_string() + (
            "; binary64 harnesses (*.float64): IEEE FloatingPoint(11,53) terms decided by the cvc5 binary (QF_FP), z3 as fall-back"
            if any(getattr(h, "fp", False) for h in hs) else ""),
        functions_encoded=res.functions,
        harnesses=res.harness_rows,
        paths_explored=st["paths"], paths_ok=st["ok"], paths_raised=st["raised"], paths_outside_model=st["outside"],
        paths_infeasible=st["infeasible"],
        obligations=st["obligations"], discharged=st["discharged"], refuted=st["sat"], unknown=st["unknown"],
        evaluations=st["queries"], distinct_nontrivial=distinct,
        rule="one evaluation = one solver query (branch feasibility or obligation); distinct_nontrivial = obligations whose "
             "SMT text is pairwise different and that z3 simplify alone does not reduce to true",
        solver_seconds=round(st["solver_s"], 3), backends=st["backends"],
        traces_validated_against_impl=st["xval"], shim_conformance_comparisons=nconf,
        twins_run=st["twins"], twins_failing_as_required=st["twins_ok"],
        samples=res.samples or [dict(note="no non-trivial obligation sample recorded")],
        exhaustive=all(r.get("exhaustive", True) for r in res.harness_rows) and not res.inconclusive,
        known_findings=[k["signature"] for k in res.known],
        inconclusive=res.inconclusive[:20],
        trusted_base=list(trusted_base),
    )
    if extra_evidence:
        cov.update(extra_evidence(res) if callable(extra_evidence) else extra_evidence)
    ev = dict(property_id=prop, tier=tier, seed=seed, level=level, coverage=cov, assumptions=list(assumptions),
              wall_s=round(wall, 2), violations=len(res.violations))
    write_evidence(prop, ev)
    for k in res.known:
        print("KNOWN-FINDING: property=%s %s [%s]" % (prop, k["what"], k["signature"]))
    for v in res.violations:
        print("VIOLATION property=%s replay=%s" % (prop, v["path"]))
        print("  harness=%s obligation=%s signature=%s observed=%s" % (v["harness"], v["obligation"], v["signature"], v["observed"][:300]))
    for msg in res.inconclusive:
        print("INCONCLUSIVE: " + msg)
    print("%s tier=%s harnesses=%d paths=%d obligations=%d discharged=%d refuted=%d unknown=%d queries=%d solver=%.1fs wall=%.1fs" % (
        prop, tier, len(hs), st["paths"], st["obligations"], st["discharged"], st["sat"], st["unknown"], st["queries"],
        st["solver_s"], wall))
    if res.violations:
        return EXIT_VIOLATION
    if res.inconclusive:
        return EXIT_INCONCLUSIVE
    return EXIT_OK


def _merge(res, r):
    for v in r.violations:
        res.violations.append(v)
    for k in r.known:
        if k not in res.known:
            res.known.append(k)
    res.inconclusive.extend(r.inconclusive)
    for k, v in r.stats.items():
        if isinstance(v, set):
            res.stats[k] |= v
        elif isinstance(v, dict):
            for b, c in v.items():
                res.stats[k][b] = res.stats[k].get(b, 0) + c
        else:
            res.stats[k] += v
    res.samples.extend(r.samples[: max(0, 4 - len(res.samples))])
    res.harness_rows.extend(r.harness_rows)
    res.functions.update(r.functions)


def _run_parallel(prop, hs, res, a, tier, jobs, total_budget, t0, pre):
    import pickle
    import subprocess
    import tempfile

    scratch = os.environ.get("VF_SCRATCH") or os.path.join(ROOT, "scratch")
    os.makedirs(scratch, exist_ok=True)
    tmp = tempfile.mkdtemp(prefix="par_%s_" % prop, dir=scratch)
    cmd = [sys.executable, "-m", "checks." + prop, "--tier", tier] + (["--only", a.only] if a.only else [])
    pending = list(range(len(hs)))
    limit = float(os.environ.get("VF_WORKER_LIMIT_S", 900 if tier == "quick" else 5400))  # a z3 call may ignore its own time limit
    started = {}
    running = {}  # index -> (Popen, outfile)
    done = {}
    pre_done = pre is None
    try:
        while pending or running:
            while pending and len(running) < jobs:
                i = pending.pop(0)
                out = os.path.join(tmp, "h%d.pkl" % i)
                running[i] = (subprocess.Popen(cmd + ["--child", str(i), "--child-out", out], stdout=sys.stderr), out)
                started[i] = time.time()
            if not pre_done:  # CrossHair part runs in this process while the harness workers are busy
                pre(res, tier)
                pre_done = True
            time.sleep(0.2)
            over = time.time() - t0 > total_budget
            for i, (p, out) in list(running.items()):
                late = time.time() - started[i] > limit
                if p.poll() is None and not over and not late:
                    continue
                if p.poll() is None:
                    p.kill()
                    p.wait()
                    done[i] = ("%s: stopped -- the time budget of this tier (%ds) was used up" % (hs[i].name, total_budget) if over else
                               "%s: stopped after %ds (worker limit; a solver call did not return)" % (hs[i].name, limit))
                else:
                    try:
                        with open(out, "rb") as f:
                            done[i] = pickle.load(f)
                    except Exception as e:  # noqa
                        done[i] = "%s: harness worker failed (exit %s): %s" % (hs[i].name, p.returncode, e)
                del running[i]
            if over:
                for i in pending:
                    done[i] = "%s: not run -- the time budget of this tier (%ds) was used up by earlier harnesses" % (hs[i].name, total_budget)
                pending = []
        if not pre_done:
            pre(res, tier)
    finally:
        for p, _ in running.values():
            try:
                p.kill()
            except OSError:
                pass
        shutil.rmtree(tmp, ignore_errors=True)
    for i in range(len(hs)):
        r = done.get(i)
        if isinstance(r, str):
            res.inconclusive.append(r)
        elif r is not None:
            _merge(res, r)


def write_evidence(prop, ev):
    try:
        import jsonschema

        with open("/root/.vp/EVIDENCE.schema.json") as f:
            jsonschema.validate(ev, json.load(f))
    except ImportError:
        pass
    except FileNotFoundError:
        pass
    os.makedirs(os.path.join(ROOT, "evidence"), exist_ok=True)
    with open(os.path.join(ROOT, "evidence", prop + ".json"), "w") as f:
        json.dump(ev, f, indent=1, default=str)


def replay_file(path, hs, prop):
    with open(path) as f:
        rec = json.load(f)
    for h in hs:
        if h.name == rec["harness"]:
            cinp = _unjson(rec["inputs"])
            if hasattr(h, "inputs_from_json"):
                cinp = h.inputs_from_json(rec["inputs"])
            reproduced, observed = h.replay(cinp, rec["obligation"])
            print("replay %s/%s: %s (%s)" % (h.name, rec["obligation"], "REPRODUCED" if reproduced else "not reproduced", observed))
            if reproduced:
                print("VIOLATION property=%s replay=%s" % (prop, path))
                return EXIT_VIOLATION
            return EXIT_OK
    print("harness %s not found" % rec["harness"])
    return EXIT_INCONCLUSIVE


def _unjson(x):
    """inverse of _jsonable: float lists become arrays, integer lists (choices, permutations) stay lists of ints"""
    if isinstance(x, dict):
        return {k: _unjson(v) for k, v in x.items()}
    if isinstance(x, list):
        flat = []

        def walk(v):
            if isinstance(v, list):
                for w in v:
                    walk(w)
            else:
                flat.append(v)

        walk(x)
        if flat and all(isinstance(v, bool) or isinstance(v, int) for v in flat):
            return x
        try:
            return np.array(x, dtype=float)
        except (ValueError, TypeError):
            return [_unjson(v) for v in x]
    return x


def run_crosshair(res, prop, path, *, names, twins=(), timeout_s=120, known=None):
    """Run CrossHair contract functions; fold verdicts into `res` (same verdict policy as the symx harnesses)."""
    import hashlib as _h

    from vf import crosshair_run

    known = load_known() if known is None else known
    t0 = time.time()
    out = crosshair_run.run(path, timeout_s=timeout_s, only=list(names) + list(twins))
    rows = []
    for name, r in out.items():
        is_twin = name in twins
        res.stats["obligations"] += r["posts"]
        res.stats["queries"] += r["posts"]
        res.stats["solver_s"] += r["seconds"]
        res.stats["backends"]["crosshair"] = res.stats["backends"].get("crosshair", 0) + r["posts"]
        for i in range(r["posts"]):
            res.stats["distinct"].add(_h.sha1(("%s:%s:%d" % (path, name, i)).encode()).hexdigest())
        rows.append(dict(harness="crosshair:" + name, posts=r["posts"], confirmed=r["confirmed"], refuted=len(r["refuted"]),
                         inconclusive=len(r["inconclusive"]), wall_s=r["seconds"], must_fail=is_twin, exhaustive=not r["inconclusive"]))
        if is_twin:
            res.stats["twins"] += 1
            if r["refuted"]:
                res.stats["twins_ok"] += 1
                res.stats["sat"] += len(r["refuted"])
            else:
                res.inconclusive.append("crosshair:%s: twin was not refuted -- harness vacuous or insensitive" % name)
            continue
        res.stats["discharged"] += r["confirmed"]
        if r["confirmed"] and len(res.samples) < 6:
            res.samples.append(dict(harness="crosshair:" + name, verdict="Confirmed over all paths", conditions=r["posts"],
                                    seconds=r["seconds"]))
        for ln, text in r["inconclusive"]:
            res.stats["unknown"] += 1
            res.inconclusive.append("crosshair:%s line %d: %s" % (name, ln, text[:200]))
        for ln, text in r["refuted"]:
            res.stats["sat"] += 1
            reproduced, observed = crosshair_run.replay_subprocess(path, name, text)
            if not reproduced:
                res.inconclusive.append("crosshair:%s: counterexample did not reproduce concretely (%s)" % (name, observed))
                continue
            sig = name + ":post"
            if any(k.get("status") == "recorded" and k["property"] == prop and k["signature"] == sig for k in known):
                for k in known:
                    if k.get("status") == "recorded" and k["property"] == prop and k["signature"] == sig and k not in res.known:
                        res.known.append(k)
                continue
            rd = os.path.join(ROOT, "replays")
            os.makedirs(rd, exist_ok=True)
            rp = os.path.join(rd, "%s_crosshair_%s.json" % (prop, name))
            with open(rp, "w") as f:
                json.dump(dict(property=prop, harness="crosshair:" + name, module=path, counterexample=text, observed=observed), f, indent=1)
            res.violations.append(dict(harness="crosshair:" + name, obligation="post", signature=sig, observed=observed, path=rp, count=1))
    res.harness_rows.extend(rows)
    res.functions["crosshair:" + os.path.basename(path)] = hashlib.sha256(open(path).read().encode()).hexdigest()[:16]
    return out
