"""Runs CrossHair (symbolic execution of Python with z3) on the contract functions of a harness module, one process
per function, in parallel; parses the verdicts; replays counterexamples by calling the function concretely."""
from __future__ import annotations

import ast
import concurrent.futures
import importlib.util
import os
import re
import subprocess
import sys
import time


def functions_of(path):
    """{name: (first_line, last_line, [post lines], docstring)} of top-level functions with a PEP316 docstring"""
    tree = ast.parse(open(path).read())
    out = {}
    for node in tree.body:
        if isinstance(node, ast.FunctionDef):
            doc = ast.get_docstring(node) or ""
            if "post:" in doc:
                out[node.name] = (node.lineno, node.end_lineno, doc)
    return out


def _run_one(py, path, name, line, timeout_s):
    t = time.time()
    cmd = [py, "-m", "crosshair", "check", "--report_all", "--per_condition_timeout", str(timeout_s), "--analysis_kind", "PEP316",
           "%s:%d" % (path, line)]
    try:
        p = subprocess.run(cmd, capture_output=True, text=True, timeout=timeout_s * 6 + 120,
                           env=dict(os.environ, PYTHONPATH=os.path.dirname(os.path.dirname(os.path.abspath(path))) + os.pathsep + os.environ.get("PYTHONPATH", "")))
        out = p.stdout + p.stderr
    except subprocess.TimeoutExpired:
        out = "TIMEOUT"
    return name, out, time.time() - t


def run(path, *, timeout_s=60, only=None, workers=16):
    """returns {name: dict(verdicts=[...], confirmed=int, refuted=[(line, text)], inconclusive=[...], seconds)}"""
    funcs = functions_of(path)
    py = sys.executable
    res = {}
    with concurrent.futures.ThreadPoolExecutor(max_workers=workers) as ex:
        futs = [ex.submit(_run_one, py, path, n, info[0], timeout_s) for n, info in funcs.items() if only is None or n in only]
        for f in futs:
            name, out, dt = f.result()
            first, last, doc = funcs[name]
            nposts = len([l for l in doc.splitlines() if l.strip().startswith("post:")])
            r = dict(confirmed=0, refuted=[], inconclusive=[], seconds=round(dt, 1), posts=nposts, raw=out.strip()[-2000:])
            for line in out.splitlines():
                m = re.match(r"^(.*?):(\d+): (info|error): (.*)$", line)
                if not m:
                    continue
                ln, kind, text = int(m.group(2)), m.group(3), m.group(4)
                if not (first <= ln <= last):
                    continue
                if text.startswith("Confirmed over all paths"):
                    r["confirmed"] += 1
                elif kind == "error":
                    r["refuted"].append((ln, text))
                else:
                    r["inconclusive"].append((ln, text))
            if out == "TIMEOUT" or (r["confirmed"] + len(r["refuted"]) + len(r["inconclusive"])) == 0:
                r["inconclusive"].append((first, "no verdict from crosshair: " + out.strip()[-300:]))
            res[name] = r
    return res


def load_module(path):
    name = "ch_harness_" + os.path.basename(path).replace(".py", "")
    spec = importlib.util.spec_from_file_location(name, path)
    mod = importlib.util.module_from_spec(spec)
    spec.loader.exec_module(mod)
    return mod


def replay(path, name, text):
    """re-run the counterexample `... when calling f(args) ...` concretely and evaluate the post-conditions.
    Returns (reproduced, observed)."""
    m = re.search(r"when calling (\w+)\((.*?)\)(?: \(which|$)", text)
    if not m:
        return False, "cannot parse counterexample: " + text[:200]
    mod = load_module(path)
    fn = getattr(mod, m.group(1))
    try:
        args = eval("(lambda *a, **k: (a, k))(%s)" % m.group(2), dict(mod.__dict__))
    except Exception as e:  # noqa
        return False, "cannot evaluate arguments: %s" % e
    try:
        result = fn(*args[0], **args[1])
    except Exception as e:  # noqa
        return True, "raises %s: %s" % (type(e).__name__, e)
    doc = fn.__doc__ or ""
    import inspect

    sig = inspect.signature(fn)
    bound = sig.bind(*args[0], **args[1])
    env = dict(mod.__dict__)
    env.update(bound.arguments)
    env["_"] = result
    env["__return__"] = result
    for line in doc.splitlines():
        line = line.strip()
        if line.startswith("post:"):
            try:
                ok = eval(line[5:].strip(), env)
            except Exception as e:  # noqa
                return True, "post-condition raised %s" % e
            if not ok:
                return True, "post-condition `%s` is false for %s(%s) -> %r" % (line[5:].strip()[:120], name, m.group(2), result)
    return False, "all post-conditions hold concretely"


def replay_subprocess(path, name, text):
    """replay in a fresh interpreter: harness modules rebind names inside yaw modules when imported"""
    import json

    code = ("import json,sys; from vf import crosshair_run as c; r = c.replay(sys.argv[1], sys.argv[2], sys.argv[3]); "
            "print('REPLAY' + json.dumps(r))")
    root = os.path.dirname(os.path.dirname(os.path.abspath(__file__)))
    p = subprocess.run([sys.executable, "-c", code, path, name, text], capture_output=True, text=True, timeout=600,
                       env=dict(os.environ, PYTHONPATH=root + os.pathsep + os.environ.get("PYTHONPATH", "")))
    for line in p.stdout.splitlines():
        if line.startswith("REPLAY"):
            r = json.loads(line[6:])
            return bool(r[0]), r[1]
    return False, "replay subprocess failed: " + (p.stderr.strip()[-300:] or p.stdout.strip()[-300:])
