"""symx -- per-path symbolic execution of real Python/numpy code objects with z3.

The functions under analysis are the repository's own code objects.  They are
called with numpy *object* arrays whose elements are `SV` (symbolic real/int
scalars wrapping z3 terms).  A comparison yields `SB`; `SB.__bool__` asks the
engine for a decision.  `explore()` re-runs the harness until the decision tree
is exhausted (solver-checked feasibility on every branch), giving one path
condition per path.  Obligations are z3 formulas discharged per path.

float64 is modelled as the reals (stated in every evidence file).
"""
from __future__ import annotations

import fractions
import itertools
import time

import numpy as np
import z3


class PathAbort(BaseException):
    """Engine control flow; BaseException so that analysed code cannot catch it."""


class Unsupported(PathAbort):
    """Operation outside the real-number model -> path kind 'outside'."""


class Infeasible(PathAbort):
    """An assumption made the path condition unsatisfiable."""


class BudgetExceeded(Exception):
    pass


R = z3.RealSort()
I = z3.IntSort()


def zval(x, like=None):
    """Convert a python/numpy/SV scalar into a z3 arithmetic term (exact)."""
    if isinstance(x, np.ndarray) and x.ndim == 0:
        x = x.item()
    if isinstance(x, SV):
        return x.e
    if isinstance(x, SB):
        return z3.If(x.e, z3.IntVal(1), z3.IntVal(0))
    if isinstance(x, (bool, np.bool_)):
        return z3.IntVal(1 if x else 0)
    if isinstance(x, (int, np.integer)):
        return z3.IntVal(int(x))
    if isinstance(x, (float, np.floating)):
        x = float(x)
        if x != x or x in (float("inf"), float("-inf")):
            raise Unsupported("non-finite constant in real model")
        if x == int(x) and abs(x) < 2**53:
            return z3.RealVal(int(x))
        return z3.RealVal(str(fractions.Fraction(x)))
    if isinstance(x, fractions.Fraction):
        return z3.RealVal(str(x))
    if z3.is_expr(x):
        return x
    raise Unsupported("cannot coerce %s into the model" % type(x).__name__)


def _is_int(e):
    return e.sort() == I


def _num(e):
    """python number for a concrete z3 numeral, else None"""
    e = z3.simplify(e)
    if z3.is_int_value(e):
        return e.as_long()
    if z3.is_rational_value(e):
        return fractions.Fraction(e.numerator_as_long(), e.denominator_as_long())
    return None


class Engine:
    cur: "Engine | None" = None

    def __init__(self, timeout_ms=20000, seed=0):
        self.solver = z3.Solver()
        self.timeout_ms = timeout_ms
        self.solver.set("timeout", timeout_ms)
        self.solver.set("random_seed", seed)
        self.prefix = []
        self.trace = []  # (cond, taken, kind) kind: 'd' decision, 'a' assumption, 's' side condition
        self.queries = 0
        self.solver_time = 0.0
        self.axioms = []  # universally valid facts (UF instances); asserted permanently
        self._axiom_ids = set()
        self.uf_apps = {}  # name -> list of (arg terms tuple)
        self.uf_hooks = {}  # name -> callable(engine, args, previous_apps) -> list of axioms
        self.fresh_count = 0
        self.choices = []  # (label, n, value) of this path
        self.unknowns = 0
        self.notes = []
        self._negcache = {}
        self._path_cache = {}

    # -- solver helpers -------------------------------------------------
    def check(self, *extra):
        t = time.time()
        self.queries += 1
        r = z3.unknown
        with watchdog(self.timeout_ms):
            r = self.solver.check(*extra)
        self.solver_time += time.time() - t
        if r == z3.unknown:
            self.unknowns += 1
        return r

    def fallback(self, goal):
        t = time.time()
        if FP_MODE:
            # branch feasibility in the float64 model: only the cheap arithmetic-abstracted query; anything not refuted
            # there is explored (sound: can only add paths -- their obligations are discharged exactly)
            from vf import cvc5x

            g = list(goal) + list(self.axioms)
            r0, _, _ = cvc5x.check_fp(abstract_fp(g) or g, 20000)
            self.solver_time += time.time() - t
            self.queries += 1
            return z3.unsat if r0 == "unsat" else z3.sat
        r, _, _, _ = _strategies(list(goal) + list(self.axioms), 8000, want_model=False)
        self.solver_time += time.time() - t
        self.queries += 1
        return r

    def pc(self, feas=False):
        """path condition; feas=True leaves out the definedness side conditions (kind 's'), which are
        typically non-linear: branch feasibility is then checked on a superset of the inputs (sound: it can only add
        paths), while obligations are always discharged under the full path condition."""
        return [c if t else z3.Not(c) for c, t, k in self.trace if not (feas and k == "s")]

    def add_axiom(self, ax):
        ax = z3.simplify(ax)
        if z3.is_true(ax):
            return
        i = ax.get_id()
        if i in self._axiom_ids:
            return
        self._axiom_ids.add(i)
        self.axioms.append(ax)
        self.solver.add(ax)

    # -- decisions ------------------------------------------------------
    def decide(self, cond):
        cond = z3.simplify(cond)
        if z3.is_true(cond):
            return True
        if z3.is_false(cond):
            return False
        cid = cond.get_id()
        hit = self._path_cache.get(cid)
        if hit is not None:
            return hit
        i = len(self.trace)
        if i < len(self.prefix):
            taken = self.prefix[i]
            if taken is None:  # replayed assumption slot: should not happen for decisions
                raise RuntimeError("prefix/trace mismatch (non-deterministic harness?)")
        else:
            r = z3.unknown if FP_MODE else self.check(*self.pc(feas=True), cond)
            if r == z3.unknown:
                r = self.fallback(self.pc(feas=True) + [cond])
            if r == z3.sat:
                taken = True
            elif r == z3.unsat:
                taken = False
            else:
                # undecided: explore the branch anyway (sound: can only add paths; a spurious path yields vacuous
                # obligations or an unreproducible counterexample, never a wrong 'holds')
                self.notes.append("branch feasibility unknown -> explored")
                taken = True
        self.trace.append((cond, taken, "d"))
        self._path_cache[cid] = taken
        return taken

    def assume(self, cond, kind="a"):
        """Harness precondition / side condition: forced True, never flipped."""
        if isinstance(cond, SB):
            cond = cond.e
        cond = z3.simplify(cond)
        if z3.is_true(cond):
            return
        if z3.is_false(cond):
            raise Infeasible("assumption is false")
        self.trace.append((cond, True, kind))

    def side(self, cond):
        self.assume(cond, kind="s")

    def choose(self, n, label="choice"):
        """A nondeterministic choice 0 <= v < n (schedule / crash point / fault)."""
        if n <= 0:
            raise ValueError("choose() needs n >= 1")
        if n == 1:
            self.choices.append((label, 1, 0))
            return 0
        v = z3.Int("%s#%d" % (label, len(self.choices)))
        self.assume(z3.And(v >= 0, v < n))
        for k in range(n - 1):
            if self.decide(v == k):
                self.choices.append((label, n, k))
                return k
        self.choices.append((label, n, n - 1))
        return n - 1

    def fresh(self, hint="t", sort=R):
        self.fresh_count += 1
        return z3.Const("%s!%d" % (hint, self.fresh_count), sort)


def explore(fn, *, max_paths=20000, budget_s=600.0, timeout_ms=20000, setup=None):
    """Run fn(engine) over all feasible decision sequences.

    Returns (engine, paths, exhaustive).  Each path is a dict with keys
    kind ('ok'|'raise'|'outside'|'infeasible'), pc (list of z3 Bool), result,
    exc, decisions, choices.
    """
    eng = Engine(timeout_ms=timeout_ms)
    if setup:
        setup(eng)
    paths = []
    prefix = []
    t0 = time.time()
    exhaustive = True
    while True:
        Engine.cur = eng
        eng.prefix = prefix
        eng.trace = []
        eng.choices = []
        eng._path_cache = {}
        res = exc = None
        try:
            res = fn(eng)
            kind = "ok"
        except Unsupported as e:
            kind, exc = "outside", e
        except Infeasible as e:
            kind, exc = "infeasible", e
        except BudgetExceeded:
            raise
        except PathAbort as e:
            kind, exc = "outside", e
        except Exception as e:  # the analysed code raised
            kind, exc = "raise", e
        finally:
            Engine.cur = None
        pc = eng.pc()
        if kind != "infeasible" and any(k == "a" for _, _, k in eng.trace) and any(k == "d" for _, _, k in eng.trace):
            # assumptions/axioms are added unchecked; make sure the path still exists
            # (a straight-line path needs no check: vacuity is guarded by the reachability twins)
            r = eng.fallback(eng.pc(feas=True)) if FP_MODE else eng.check(*eng.pc(feas=True))
            if r == z3.unsat:
                kind = "infeasible"
            elif r == z3.unknown:
                # sound: an infeasible path only adds vacuous obligations; vacuity is guarded by the twins
                eng.notes.append("path feasibility unknown -> treated as feasible")
        paths.append(
            dict(kind=kind, pc=pc, result=res, exc=exc, trace=list(eng.trace), choices=list(eng.choices),
                 inputs=getattr(eng, "inputs", None))
        )
        eng.inputs = None
        # backtrack: last decision taken True whose negation is feasible
        tr = eng.trace
        nxt = None
        for k in range(len(tr) - 1, -1, -1):
            c, t, kd = tr[k]
            if kd == "d" and t:
                key = tuple(tt for _, tt, _ in tr[: k + 1])
                r = eng._negcache.get(key)
                if r is None:
                    pcs = [cc if tt else z3.Not(cc) for cc, tt, kk in tr[:k] if kk != "s"]
                    r = z3.unknown if FP_MODE else eng.check(*pcs, z3.Not(c))
                    if r == z3.unknown:
                        r = eng.fallback(pcs + [z3.Not(c)])
                    if r == z3.unknown:
                        eng.notes.append("branch feasibility unknown -> explored")
                        r = z3.sat
                    eng._negcache[key] = r
                if r == z3.sat:
                    nxt = [tt for _, tt, _ in tr[:k]] + [False]
                    break
        if nxt is None:
            break
        if len(paths) >= max_paths or time.time() - t0 > budget_s:
            exhaustive = False
            break
        prefix = nxt
    return eng, paths, exhaustive


# ----------------------------------------------------------------------
# symbolic scalars


class SB:
    """Symbolic boolean."""

    __slots__ = ("e",)

    def __init__(self, e):
        self.e = e

    def __bool__(self):
        eng = Engine.cur
        if eng is None:
            raise RuntimeError("symbolic bool used outside an engine run")
        return eng.decide(self.e)

    @staticmethod
    def _b(o):
        if isinstance(o, SB):
            return o.e
        if isinstance(o, (bool, np.bool_)):
            return z3.BoolVal(bool(o))
        raise Unsupported("bool op with %s" % type(o).__name__)

    def __and__(self, o):
        return SB(z3.And(self.e, self._b(o)))

    def __or__(self, o):
        return SB(z3.Or(self.e, self._b(o)))

    def __xor__(self, o):
        return SB(z3.Xor(self.e, self._b(o)))

    __rand__ = __and__
    __ror__ = __or__
    __rxor__ = __xor__

    def __invert__(self):
        return SB(z3.Not(self.e))

    def __eq__(self, o):
        return SB(self.e == self._b(o))

    def __ne__(self, o):
        return SB(self.e != self._b(o))

    __hash__ = None

    def __repr__(self):
        return "SB(%s)" % self.e


def _arith(a, b):
    """coerce two z3 arithmetic terms to a common sort"""
    if _is_int(a) and not _is_int(b):
        a = z3.ToReal(a)
    elif _is_int(b) and not _is_int(a):
        b = z3.ToReal(b)
    return a, b


class SV:
    """Symbolic real- or integer-valued scalar."""

    __slots__ = ("e",)

    def __init__(self, e):
        self.e = e

    # -- helpers
    @property
    def is_int(self):
        return _is_int(self.e)

    def _bin(self, o, f, swap=False):
        try:
            b = zval(o)
        except Unsupported:
            return NotImplemented
        a, b = _arith(self.e, b)
        if swap:
            a, b = b, a
        return SV(f(a, b))

    def __add__(self, o):
        return self._bin(o, lambda a, b: a + b)

    def __radd__(self, o):
        return self._bin(o, lambda a, b: a + b, True)

    def __sub__(self, o):
        return self._bin(o, lambda a, b: a - b)

    def __rsub__(self, o):
        return self._bin(o, lambda a, b: a - b, True)

    def __mul__(self, o):
        return self._bin(o, lambda a, b: a * b)

    def __rmul__(self, o):
        return self._bin(o, lambda a, b: a * b, True)

    @staticmethod
    def _div(a, b):
        if _is_int(a):
            a = z3.ToReal(a)
        if _is_int(b):
            b = z3.ToReal(b)
        n = _num(b)
        if n is not None:
            if n == 0:
                raise Unsupported("division by constant zero")
        else:
            Engine.cur.side(b != 0)
        return a / b

    def __truediv__(self, o):
        return self._bin(o, SV._div)

    def __rtruediv__(self, o):
        return self._bin(o, SV._div, True)

    def __floordiv__(self, o):
        b = zval(o)
        if _is_int(self.e) and _is_int(b):
            n = _num(b)
            if n is None:
                Engine.cur.side(b > 0)
            elif n <= 0:
                raise Unsupported("floordiv by non-positive")
            return SV(self.e / b)  # z3 int division == floor for positive divisor
        raise Unsupported("floordiv on reals")

    def __mod__(self, o):
        b = zval(o)
        if _is_int(self.e) and _is_int(b):
            n = _num(b)
            if n is None:
                Engine.cur.side(b > 0)
            elif n <= 0:
                raise Unsupported("mod by non-positive")
            return SV(self.e % b)
        # real modulo: python semantics result in [0, m) for m > 0.  Modelled by a
        # fresh integer quotient q with 0 <= v - q*m < m.
        # real modulo with python semantics (result in [0, m) for m > 0), modelled on the window -m < a < 2m
        # (values outside the window are outside the model: side condition)
        a, b = _arith(self.e, b)
        eng = Engine.cur
        eng.side(z3.And(b > 0, a > -b, a < 2 * b))
        return SV(z3.If(a < 0, a + b, z3.If(a >= b, a - b, a)))

    def __rmod__(self, o):
        return SV(zval(o)).__mod__(self)

    def __neg__(self):
        return SV(-self.e)

    def __pos__(self):
        return self

    def __abs__(self):
        return SV(z3.If(self.e >= 0, self.e, -self.e))

    def __pow__(self, o):
        if isinstance(o, (int, np.integer)) or (isinstance(o, float) and o == int(o)):
            n = int(o)
            if n >= 0:
                r = z3.RealVal(1) if not self.is_int else z3.IntVal(1)
                for _ in range(n):
                    r = r * self.e
                return SV(r)
            return 1 / (self ** (-n))
        from vf import uf

        return uf.power(self, o)

    def __rpow__(self, base):
        from vf import uf

        return uf.rpower(base, self)

    # comparisons
    def _cmp(self, o, f):
        try:
            b = zval(o)
        except Unsupported:
            return NotImplemented
        a, b = _arith(self.e, b)
        return SB(f(a, b))

    def __lt__(self, o):
        return self._cmp(o, lambda a, b: a < b)

    def __le__(self, o):
        return self._cmp(o, lambda a, b: a <= b)

    def __gt__(self, o):
        return self._cmp(o, lambda a, b: a > b)

    def __ge__(self, o):
        return self._cmp(o, lambda a, b: a >= b)

    def __eq__(self, o):
        if o is None:
            return False
        return self._cmp(o, lambda a, b: a == b)

    def __ne__(self, o):
        if o is None:
            return True
        return self._cmp(o, lambda a, b: a != b)

    def __hash__(self):
        # structural hash of the term: the same term always meets itself in a dict/set; two different terms that
        # could be equal in value are treated as different keys (under-approximation, irrelevant for the code analysed)
        return hash(self.e)

    # conversions
    def __float__(self):
        n = _num(self.e)
        if n is not None:
            return float(n)
        raise Unsupported("float() of a symbolic value")

    def __int__(self):
        n = _num(self.e)
        if n is not None and (isinstance(n, int) or n.denominator == 1):
            return int(n)
        raise Unsupported("int() of a symbolic value")

    def __index__(self):
        n = _num(self.e)
        if isinstance(n, int):
            return n
        raise Unsupported("__index__ of a symbolic value")

    def __bool__(self):
        return bool(self != 0)

    def __repr__(self):
        return "SV(%s)" % self.e

    def __format__(self, spec):
        from vf import fmtstr

        return fmtstr.format_sv(self, spec)

    # numpy object-array protocol: np.sqrt(obj_arr) calls elem.sqrt() etc.
    def conjugate(self):
        return self

    def sqrt(self):
        from vf import uf

        return uf.sqrt(self)

    def log10(self):
        from vf import uf

        return uf.log10(self)

    def log(self):
        from vf import uf

        return uf.ln(self)

    def exp(self):
        from vf import uf

        return uf.exp(self)

    def sin(self):
        from vf import uf

        return uf.sin(self)

    def cos(self):
        from vf import uf

        return uf.cos(self)

    def arcsin(self):
        from vf import uf

        return uf.arcsin(self)

    def arccos(self):
        from vf import uf

        return uf.arccos(self)

    def deg2rad(self):
        from vf import uf

        return self * uf.pi() / 180

    radians = deg2rad

    def rad2deg(self):
        from vf import uf

        return self * 180 / uf.pi()

    def item(self):
        return self

    def copy(self):
        return self

    def __deepcopy__(self, memo):
        return self

    def __copy__(self):
        return self

    def __reduce__(self):
        return (_unpickle_sv, (self.e.sexpr(), self.is_int, self.e.get_id()))


_PICKLE_REG = {}


def _unpickle_sv(sexpr, is_int, ident):
    e = _PICKLE_REG.get(ident)
    if e is None:
        raise Unsupported("unpickling an unknown symbolic value")
    return SV(e)


def register_for_pickle(sv):
    _PICKLE_REG[sv.e.get_id()] = sv.e


def ite(cond, a, b):
    """symbolic if-then-else without forking"""
    if not isinstance(cond, SB):
        return a if cond else b
    c = cond.e
    if type(a).__name__ == "SF" or type(b).__name__ == "SF" or (
            FP_MODE and isinstance(a, (float, np.floating)) and isinstance(b, (float, np.floating))):
        from vf import fpx

        return fpx.fite(cond, a, b)
    x, y = _arith(zval(a), zval(b))
    return SV(z3.If(c, x, y))


def sym(name, sort="real"):
    return SV(z3.Real(name) if sort == "real" else z3.Int(name))


class SArr(np.ndarray):
    """object ndarray whose float casts are no-ops (float64 |-> reals)."""

    def astype(self, dtype, *a, **k):
        if self.dtype == object:
            try:
                kind = np.dtype(dtype).kind
            except TypeError:
                kind = "O"
            if kind in "fO":
                if k.get("copy", True) is False:
                    return self
                return self.copy()
            if kind in "iu" and all(isinstance(v, (int, np.integer)) or (isinstance(v, SV) and v.is_int) for v in self.ravel()):
                if all(not isinstance(v, SV) for v in self.ravel()):
                    return np.ndarray.astype(self.view(np.ndarray), dtype, *a, **k)
                return self.copy()
        return np.ndarray.astype(self, dtype, *a, **k)

    def sum(self, axis=None, *a, **k):
        r = np.ndarray.sum(self, axis=axis, *a, **k)
        return r

    def min(self, axis=None, **k):
        if self.dtype != object:
            return np.ndarray.min(self.view(np.ndarray), axis=axis, **k)
        from vf import symnp

        return symnp.FACADE.min(self, axis=axis)

    def max(self, axis=None, **k):
        if self.dtype != object:
            return np.ndarray.max(self.view(np.ndarray), axis=axis, **k)
        from vf import symnp

        return symnp.FACADE.max(self, axis=axis)

    def tolist(self):
        return np.ndarray.tolist(self)

    def tofile(self, fid, sep="", format="%s"):
        from vf.stubs import fsmodel

        return fsmodel.tofile(self, fid, sep=sep, format=format)


def sarr(x):
    a = np.asarray(x, dtype=object) if not isinstance(x, np.ndarray) else x
    if a.dtype != object:
        a = a.astype(object)
    return a.view(SArr)


def symarr(name, shape, sort="real"):
    if isinstance(shape, int):
        shape = (shape,)
    a = np.empty(shape, dtype=object)
    for idx in np.ndindex(*shape):
        a[idx] = sym(name + "_" + "_".join(map(str, idx)), sort)
    return a.view(SArr)


def is_symbolic(x):
    if isinstance(x, (SV, SB)):
        return True
    if isinstance(x, np.ndarray) and x.dtype == object:
        return any(isinstance(v, (SV, SB)) for v in x.ravel())
    return False


# ----------------------------------------------------------------------
# discharge


class Verdict:
    __slots__ = ("name", "status", "model", "seconds", "formula", "backend")

    def __init__(self, name, status, model=None, seconds=0.0, formula=None, backend="z3"):
        self.name, self.status, self.model, self.seconds, self.formula, self.backend = (
            name,
            status,
            model,
            seconds,
            formula,
            backend,
        )


class watchdog:
    """z3's own timeout is soft (big-number arithmetic inside nlsat is not interruptible by it): a timer thread
    interrupts the context if a call overruns its budget; the call then reports `unknown`."""

    def __init__(self, timeout_ms):
        import threading

        self.t = threading.Timer(timeout_ms / 1000.0 * 1.5 + 2.0, self._fire)
        self.fired = False

    def _fire(self):
        self.fired = True
        z3.main_ctx().interrupt()

    def __enter__(self):
        self.t.daemon = True
        self.t.start()
        return self

    def __exit__(self, et, ev, tb):
        self.t.cancel()
        if et is not None and issubclass(et, z3.Z3Exception) and self.fired:
            return True  # swallowed: caller sees the default result
        return False


def _solve(assertions, timeout_ms, tactic=None):
    if tactic:
        s = z3.Then(z3.Tactic("simplify"), z3.Tactic(tactic)).solver()
    else:
        s = z3.Solver()
    s.set("timeout", timeout_ms)
    s.add(*assertions)
    t = time.time()
    r, m = z3.unknown, None
    with watchdog(timeout_ms):
        r = s.check()
        m = s.model() if r == z3.sat else None
    dt = time.time() - t
    return r, m, dt


_SYMS = {}


def _symbols(e):
    """ids of uninterpreted constants / names of uninterpreted functions occurring in e (cached by expr id)"""
    key = e.get_id()
    hit = _SYMS.get(key)
    if hit is not None and hit[0].eq(e):
        return hit[1]
    out = set()
    seen = set()
    stack = [e]
    while stack:
        t = stack.pop()
        i = t.get_id()
        if i in seen:
            continue
        seen.add(i)
        if z3.is_app(t):
            d = t.decl()
            if d.kind() == z3.Z3_OP_UNINTERPRETED:
                out.add(d.name())
            stack.extend(t.children())
    _SYMS[key] = (e, frozenset(out))
    return _SYMS[key][1]


class SliceIndex:
    """symbol -> constraints index for cone-of-influence slicing (built once per constraint list, extended lazily)"""

    def __init__(self):
        self.items = []  # (constraint, symbols)
        self.by_sym = {}
        self.nosym = []
        self.ids = set()

    def add(self, c):
        i = c.get_id()
        if i in self.ids:
            return
        self.ids.add(i)
        ss = _symbols(c)
        k = len(self.items)
        self.items.append((c, ss))
        if not ss:
            self.nosym.append(k)
        for sname in ss:
            self.by_sym.setdefault(sname, []).append(k)

    def cone(self, goal_syms):
        chosen = set(self.nosym)
        seen = set()
        stack = list(goal_syms)
        while stack:
            sname = stack.pop()
            if sname in seen:
                continue
            seen.add(sname)
            for k in self.by_sym.get(sname, ()):
                if k not in chosen:
                    chosen.add(k)
                    for s2 in self.items[k][1]:
                        if s2 not in seen:
                            stack.append(s2)
        inside = [self.items[k][0] for k in sorted(chosen)]
        outside = [self.items[k][0] for k in range(len(self.items)) if k not in chosen]
        return inside, outside


def _slice(constraints, goal_syms, index=None):
    """cone of influence: the constraints transitively sharing a symbol with the goal"""
    idx = SliceIndex() if index is None else index
    for c in constraints:
        idx.add(c)
    return idx.cone(goal_syms)


class MultiModel:
    """models of independent (symbol-disjoint) sub-problems, evaluated in sequence"""

    def __init__(self, models):
        self.models = [m for m in models if m is not None]

    def eval(self, e, model_completion=True):
        for m in self.models[:-1]:
            e = m.eval(e, model_completion=False)
        return self.models[-1].eval(e, model_completion=model_completion)


def _uf_apps(fs):
    apps, seen, stack = {}, set(), list(fs)
    while stack:
        t = stack.pop()
        i = t.get_id()
        if i in seen:
            continue
        seen.add(i)
        if z3.is_app(t):
            if t.decl().kind() == z3.Z3_OP_UNINTERPRETED and t.num_args() > 0:
                apps[i] = t
            stack.extend(t.children())
    return list(apps.values())


def abstract_uf(goal):
    """replace every uninterpreted-function application by a fresh real variable (functional consistency dropped):
    a weakening, so `unsat` of the abstraction implies `unsat` of the goal; `sat` means nothing."""
    apps = _uf_apps(goal)
    if not apps:
        return None
    pairs = [(t, z3.Real("uf!abs!%d" % t.get_id()) if t.sort() == R else z3.Int("uf!abs!%d" % t.get_id())) for t in apps]
    return [z3.substitute(f, *pairs) for f in goal]


def abstract_fp(goal):
    """replace every maximal float arithmetic term (+ - * / sqrt) by a fresh float constant: a superset of the behaviours,
    hence sound for 'unsat'; decides goals that only depend on comparisons / min / max / ite of such terms"""
    ARITH = {z3.Z3_OP_FPA_ADD, z3.Z3_OP_FPA_SUB, z3.Z3_OP_FPA_MUL, z3.Z3_OP_FPA_DIV, z3.Z3_OP_FPA_SQRT, z3.Z3_OP_FPA_FMA,
             z3.Z3_OP_FPA_REM, z3.Z3_OP_FPA_ROUND_TO_INTEGRAL}
    subst, seen, stack = {}, set(), list(goal)
    while stack:
        t = stack.pop()
        if t.get_id() in seen:
            continue
        seen.add(t.get_id())
        if z3.is_app(t):
            if t.decl().kind() in ARITH:
                subst[t.get_id()] = (t, z3.Const("fpabs!%d" % t.get_id(), t.sort()))
            else:
                stack.extend(t.children())
    if not subst:
        return None
    pairs = list(subst.values())
    return [z3.substitute(g, *pairs) for g in goal]


FP_MODE = False  # set by float64 harnesses (vf.fpx): goals are QF_FP(+UF) and go to the bit-blasting tactic
FP_TIMEOUT_MS = 300000  # typical binary64 goals take 10-70 s with cvc5; the margin is for a loaded machine


def _strategies(goal, timeout_ms, want_model=True):
    """returns (result, model, seconds, backend); several attempts because z3 is not robust on UF+NRA"""
    total = 0.0
    if FP_MODE:
        from vf import cvc5x

        budget = max(timeout_ms, FP_TIMEOUT_MS)
        consts, seen, stack = {}, set(), list(goal)
        while stack:
            t = stack.pop()
            if t.get_id() in seen:
                continue
            seen.add(t.get_id())
            if z3.is_const(t) and t.decl().kind() == z3.Z3_OP_UNINTERPRETED and z3.is_fp(t):
                consts[t.decl().name()] = t
            elif z3.is_app(t):
                stack.extend(t.children())
        abstr = abstract_fp(goal)
        if abstr is not None:
            r0, _, dt0 = cvc5x.check_fp(abstr, 20000)
            total += dt0
            if r0 == "unsat":
                return z3.unsat, None, total, "cvc5-qffp(arith-abstracted)"
        r3, m3, dt3 = cvc5x.check_fp(goal, budget, [consts[k] for k in sorted(consts)])
        dt3 += total
        if r3 in ("sat", "unsat"):
            # a cvc5 'sat' is validated below by evaluating the goal under the model (and later by the replay)
            if r3 == "unsat" or all(z3.is_true(m3.eval(g)) for g in goal if not _uf_apps([g])):
                return (z3.sat if r3 == "sat" else z3.unsat), m3, dt3, "cvc5-qffp"
        s = z3.Solver()
        s.set("timeout", budget)
        s.add(*goal)
        t = time.time()
        r = z3.unknown
        with watchdog(budget + 5000):
            r = s.check()
        return r, (s.model() if r == z3.sat else None), dt3 + time.time() - t, "z3-fp"
    try:
        r, m, dt = _solve(goal, max(2000, timeout_ms // 4), tactic="qfnra-nlsat")
        total += dt
        if r != z3.unknown:
            return r, m, total, "z3-nlsat"
    except z3.Z3Exception:
        pass
    for seed in (0, 7):
        s = z3.Solver()
        s.set("timeout", max(2000, timeout_ms // 2))
        s.set("random_seed", seed)
        s.add(*goal)
        t = time.time()
        r = s.check()
        total += time.time() - t
        if r != z3.unknown:
            return r, (s.model() if r == z3.sat else None), total, "z3"
    # last resort: drop functional consistency of the uninterpreted functions and let nlsat decide the rest
    if len(goal) <= 400:
        abstr = abstract_uf(goal)
        if abstr is not None:
            try:
                r, m, dt = _solve(abstr, max(2000, timeout_ms // 2), tactic="qfnra-nlsat")
                total += dt
                if r == z3.unsat:
                    return r, None, total, "z3-nlsat(uf-abstracted)"
            except z3.Z3Exception:
                pass
    return z3.unknown, None, total, "z3"


def discharge(eng, path, obligations, *, timeout_ms=20000, hints=(), use_cvc5=True):
    """Try to prove each obligation on `path`.  Returns list[Verdict]."""
    out = []
    # index of the engine's axioms is kept across paths (they only grow); path condition and hints are added on top
    ax_index = eng.__dict__.get("_ax_index")
    if ax_index is None:
        ax_index = eng.__dict__["_ax_index"] = SliceIndex()
    for a in eng.axioms[len(ax_index.items):] if len(ax_index.items) <= len(eng.axioms) else eng.axioms:
        ax_index.add(a)
    local = SliceIndex()
    for c in list(path["pc"]) + list(hints):
        local.add(c)
    for name, f in obligations:
        if isinstance(f, SB):
            f = f.e
        if isinstance(f, (bool, np.bool_)):
            f = z3.BoolVal(bool(f))
        fs = z3.simplify(f)
        if z3.is_true(fs):
            out.append(Verdict(name, "unsat", seconds=0.0, formula=f, backend="simplify"))
            continue
        neg = z3.Not(f)
        # alternate between the two indexes until the symbol set is stable
        syms = set(_symbols(neg))
        while True:
            in1, out1 = local.cone(syms)
            s1 = set(syms)
            for c in in1:
                s1 |= _symbols(c)
            in2, out2 = ax_index.cone(s1)
            s2 = set(s1)
            for c in in2:
                s2 |= _symbols(c)
            if s2 == syms:
                break
            syms = s2
        inside, outside = in1 + in2, out1 + out2
        goal = inside + [neg]
        r, m, dt, backend = _strategies(goal, timeout_ms)
        if r == z3.unknown and use_cvc5 and not FP_MODE:
            from vf import cvc5x

            r3, dt3 = cvc5x.check(goal, timeout_ms)
            dt += dt3
            if r3 == "unsat":
                r, backend = z3.unsat, "cvc5"
        if r == z3.unknown and not FP_MODE:
            # time-outs are wall-clock: under CPU contention a query that normally takes seconds may not finish -- one
            # more attempt with four times the budget before the obligation is reported as undecided
            r, m, dt4, backend = _strategies(goal, timeout_ms * 4)
            dt += dt4
            if r == z3.unknown:
                backend += "(retried)"
        if r == z3.sat and outside:
            # complete the counterexample with a model of the independent remainder (validated later by replay)
            r2, m2, dt2, _ = _strategies(outside, timeout_ms)
            dt += dt2
            if r2 == z3.sat:
                m = MultiModel([m, m2])
            else:  # no witness for the rest of the path condition: the refutation is not established
                r, m = z3.unknown, None
        eng.queries += 1
        eng.solver_time += dt
        out.append(Verdict(name, str(r), model=m, seconds=dt, formula=f, backend=backend))
    return out


def model_value(m, e, default=0.0):
    """concrete float/int of term e under model m (model completion)"""
    if hasattr(m, "value"):
        try:
            return m.value(e)
        except (KeyError, ValueError):
            pass
    v = m.eval(e, model_completion=True)
    if z3.is_fp(v):
        v = z3.simplify(v)
        if z3.is_fp_value(v):
            from vf import fpx

            return fpx.fp_to_float(v)
        return default
    n = _num(v)
    if n is None:
        if z3.is_algebraic_value(v):
            return float(v.approx(20).as_fraction())
        if z3.is_true(v):
            return True
        if z3.is_false(v):
            return False
        return default
    return int(n) if isinstance(n, int) else float(n)


def concretise(m, x):
    """map SV / arrays of SV to floats under a model"""
    if isinstance(x, SV):
        return model_value(m, x.e)
    if isinstance(x, SB):
        return bool(model_value(m, x.e))
    if isinstance(x, np.ndarray):
        if x.dtype != object:
            return np.array(x)
        out = np.empty(x.shape, dtype=float)
        for idx in np.ndindex(*x.shape):
            out[idx] = concretise(m, x[idx])
        return out
    if isinstance(x, dict):
        return {k: concretise(m, v) for k, v in x.items()}
    if isinstance(x, (list, tuple)):
        return type(x)(concretise(m, v) for v in x)
    return x
