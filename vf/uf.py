"""Transcendental functions as uninterpreted functions with eagerly and finitely
instantiated *true* axioms.

Every axiom instance is a fact about the real function, so an `unsat` answer is
sound.  A spurious `sat` (incompleteness of the finite instantiation) can never
become a VIOLATION because it does not replay on the real code.
Instances are asserted in the engine's solver as soon as an application is
created so that path feasibility already respects them.
"""
from __future__ import annotations

import z3

from vf.symx import SV, Engine, R, Unsupported, _num, zval, _is_int

_F = {}


def F(name, arity=1):
    if name not in _F:
        _F[name] = z3.Function(name, *([R] * arity), R)
    return _F[name]


PI = z3.Real("pi")


def pi():
    eng = Engine.cur
    if eng is not None:
        eng.add_axiom(z3.And(PI > z3.RealVal("3.14159"), PI < z3.RealVal("3.1416")))
    return SV(PI)


def _real(x):
    e = zval(x)
    if _is_int(e):
        e = z3.ToReal(e)
    return e


def _apps(eng, name):
    return eng.uf_apps.setdefault(name, [])


def _register(eng, name, a):
    """record application name(a); returns True if it is new"""
    lst = _apps(eng, name)
    for b in lst:
        if b.eq(a):
            return False
    lst.append(a)
    return True


def _monotone(eng, name, a, lo=None, hi=None, decreasing=False):
    f = F(name)
    for b in _apps(eng, name):
        if b.eq(a):
            continue
        dom = []
        for t in (a, b):
            if lo is not None:
                dom.append(t >= lo)
            if hi is not None:
                dom.append(t <= hi)
        if decreasing:
            body = z3.And((a < b) == (f(a) > f(b)), (b < a) == (f(b) > f(a)))
        else:
            body = z3.And((a < b) == (f(a) < f(b)), (b < a) == (f(b) < f(a)))
        eng.add_axiom(z3.Implies(z3.And(*dom), body) if dom else body)


# -- sqrt ---------------------------------------------------------------
def sqrt(x):
    eng = Engine.cur
    a = _real(x)
    n = _num(a)
    if n is not None:
        if n < 0:
            raise Unsupported("sqrt of a negative constant")
        import fractions, math

        fr = fractions.Fraction(n)
        rn, rd = math.isqrt(fr.numerator), math.isqrt(fr.denominator)
        if rn * rn == fr.numerator and rd * rd == fr.denominator:
            return SV(z3.RealVal(str(fractions.Fraction(rn, rd))))
    f = F("sqrt")
    eng.side(a >= 0)
    if _register(eng, "sqrt", a):
        eng.add_axiom(z3.Implies(a >= 0, z3.And(f(a) >= 0, f(a) * f(a) == a)))
        _monotone(eng, "sqrt", a, lo=z3.RealVal(0))
    return SV(f(a))


# -- log10 / 10**x --------------------------------------------------------
def _link_inverse(eng, fname, gname, a):
    """g is the inverse of f: for a new application f(a) instantiate against g-applications"""
    f, g = F(fname), F(gname)
    for b in _apps(eng, gname):
        # a == g(b) -> f(a) == b
        eng.add_axiom(z3.Implies(a == g(b), f(a) == b))
        # b == f(a) -> g(b) == a   (domain conditions are side conditions of the apps)
        eng.add_axiom(z3.Implies(b == f(a), g(b) == a))


def _anchor_log(eng):
    if "log_anchor" in eng.uf_apps:
        return
    eng.uf_apps["log_anchor"] = [True]
    one, zero = z3.RealVal(1), z3.RealVal(0)
    _register(eng, "log10", one)
    _register(eng, "exp10", zero)
    eng.add_axiom(F("log10")(one) == 0)
    eng.add_axiom(F("exp10")(zero) == 1)


def log10(x):
    eng = Engine.cur
    a = _real(x)
    _anchor_log(eng)
    eng.side(a > 0)
    if _register(eng, "log10", a):
        _monotone(eng, "log10", a, lo=None)
        _link_inverse(eng, "log10", "exp10", a)
    return SV(F("log10")(a))


def exp10(x):
    eng = Engine.cur
    a = _real(x)
    _anchor_log(eng)
    if _register(eng, "exp10", a):
        eng.add_axiom(F("exp10")(a) > 0)
        _monotone(eng, "exp10", a)
        _link_inverse(eng, "exp10", "log10", a)
    return SV(F("exp10")(a))


def ln(x):
    eng = Engine.cur
    a = _real(x)
    eng.side(a > 0)
    if _register(eng, "ln", a):
        if "ln_anchor" not in eng.uf_apps:
            eng.uf_apps["ln_anchor"] = [True]
            _register(eng, "ln", z3.RealVal(1))
            eng.add_axiom(F("ln")(z3.RealVal(1)) == 0)
        _monotone(eng, "ln", a)
        _link_inverse(eng, "ln", "exp", a)
    return SV(F("ln")(a))


def exp(x):
    eng = Engine.cur
    a = _real(x)
    if _register(eng, "exp", a):
        eng.add_axiom(F("exp")(a) > 0)
        _monotone(eng, "exp", a)
        _link_inverse(eng, "exp", "ln", a)
    return SV(F("exp")(a))


def rpower(base, x):
    """base ** x with concrete base"""
    if isinstance(base, SV):
        return power(base, x)
    b = float(base)
    if b == 10.0:
        return exp10(x)
    import math

    if abs(b - math.e) < 1e-15:
        return exp(x)
    return power(SV(zval(b)), x)


def power(x, alpha):
    """x ** alpha for a non-integer / symbolic exponent: UF pow(x, alpha), positive on positives,
    pow(x, 0) = 1, pow(x, 1) = x; strictly monotone in x for fixed alpha sign is NOT assumed."""
    eng = Engine.cur
    a = _real(x)
    al = _real(alpha)
    f = F("pow", 2)
    eng.side(a > 0)
    key = z3.Z3_mk_app  # noqa - just to keep linters quiet
    lst = _apps(eng, "pow")
    if not any(p[0].eq(a) and p[1].eq(al) for p in lst):
        lst.append((a, al))
        eng.add_axiom(z3.Implies(a > 0, f(a, al) > 0))
        eng.add_axiom(z3.Implies(al == 0, f(a, al) == 1))
        eng.add_axiom(z3.Implies(al == 1, f(a, al) == a))
        for (b, be) in lst[:-1]:
            # same exponent: order preserving for alpha>0, reversing for alpha<0
            eng.add_axiom(
                z3.Implies(
                    z3.And(al == be, a > 0, b > 0),
                    z3.And(
                        z3.Implies(al > 0, (a < b) == (f(a, al) < f(b, be))),
                        z3.Implies(al < 0, (a < b) == (f(a, al) > f(b, be))),
                        z3.Implies(a == b, f(a, al) == f(b, be)),
                    ),
                )
            )
    return SV(f(a, al))


# -- trigonometry ----------------------------------------------------------
def _trig_axioms(eng, t):
    c, s = F("cos")(t), F("sin")(t)
    pi()
    H = PI / 2
    for ax in (
        c * c + s * s == 1,
        z3.Implies(z3.And(t >= 0, t <= PI), s >= 0),
        z3.Implies(z3.And(t >= PI, t <= 2 * PI), s <= 0),
        z3.Implies(z3.And(t >= -PI, t <= 0), s <= 0),
        z3.Implies(z3.And(t >= -PI, t <= 2 * PI, s == 0), z3.Or(t == 0, t == PI, t == -PI, t == 2 * PI)),
        z3.Implies(z3.And(t >= -H, t <= H), c >= 0),
        z3.Implies(z3.And(t >= H, t <= 3 * H), c <= 0),
        z3.Implies(z3.And(t >= -H, t <= 3 * H, c == 0), z3.Or(t == H, t == -H, t == 3 * H)),
        z3.Implies(t == 0, z3.And(c == 1, s == 0)),
        z3.Implies(t == PI, z3.And(c == -1, s == 0)),
        z3.Implies(t == 2 * PI, z3.And(c == 1, s == 0)),
        z3.Implies(t == H, z3.And(s == 1, c == 0)),
        z3.Implies(t == -H, z3.And(s == -1, c == 0)),
    ):
        eng.add_axiom(ax)
    # monotonicity on the principal ranges against earlier arguments
    for b in _apps(eng, "trig"):
        if b.eq(t):
            continue
        eng.add_axiom(
            z3.Implies(
                z3.And(t >= -H, t <= H, b >= -H, b <= H),
                z3.And((t < b) == (F("sin")(t) < F("sin")(b)), (b < t) == (F("sin")(b) < F("sin")(t))),
            )
        )
        eng.add_axiom(
            z3.Implies(
                z3.And(t >= 0, t <= PI, b >= 0, b <= PI),
                z3.And((t < b) == (F("cos")(t) > F("cos")(b)), (b < t) == (F("cos")(b) > F("cos")(t))),
            )
        )
    # evenness / oddness / periodicity against earlier arguments
    for b in _apps(eng, "trig"):
        if b.eq(t):
            continue
        cb, sb = F("cos")(b), F("sin")(b)
        eng.add_axiom(z3.Implies(t == -b, z3.And(c == cb, s == -sb)))
        eng.add_axiom(z3.Implies(z3.Or(t == b + 2 * PI, t == b - 2 * PI), z3.And(c == cb, s == sb)))
        eng.add_axiom(z3.Implies(t == b, z3.And(c == cb, s == sb)))
        eng.add_axiom(z3.Implies(z3.Or(t == 2 * PI - b, b == 2 * PI - t), z3.And(c == cb, s == -sb)))
    # link with inverse applications
    for u in _apps(eng, "arccos"):
        _acos_link(eng, u, t)
    for u in _apps(eng, "arcsin"):
        _asin_link(eng, u, t)


def _acos_link(eng, u, t):
    eng.add_axiom(z3.Implies(z3.And(u == F("cos")(t), t >= 0, t <= PI), F("arccos")(u) == t))
    eng.add_axiom(z3.Implies(z3.And(u == F("cos")(t), t >= PI, t <= 2 * PI), F("arccos")(u) == 2 * PI - t))
    eng.add_axiom(z3.Implies(z3.And(u == F("cos")(t), t >= -PI, t <= 0), F("arccos")(u) == -t))


def _asin_link(eng, u, t):
    H = PI / 2
    eng.add_axiom(z3.Implies(z3.And(u == F("sin")(t), t >= -H, t <= H), F("arcsin")(u) == t))


LIGHT_TRIG = False  # when True: sin is only a strictly increasing function on [-pi/2, pi/2] with sin(0)=0, sin(pi/2)=1


class light_trig:
    def __enter__(self):
        global LIGHT_TRIG
        self.old, LIGHT_TRIG = LIGHT_TRIG, True

    def __exit__(self, *a):
        global LIGHT_TRIG
        LIGHT_TRIG = self.old


def _light_sin_axioms(eng, t):
    pi()
    H = PI / 2
    s = F("sin")(t)
    if "lsin_anchor" not in eng.uf_apps:
        eng.uf_apps["lsin_anchor"] = [True]
        zero = z3.RealVal(0)
        _register(eng, "lsin", zero)
        eng.add_axiom(F("sin")(zero) == 0)
        _register(eng, "lsin", H)
        eng.add_axiom(F("sin")(H) == 1)
        eng.add_axiom(z3.And((zero < H), F("sin")(zero) < F("sin")(H)))
    for b in _apps(eng, "lsin"):
        if b.eq(t):
            continue
        eng.add_axiom(
            z3.Implies(
                z3.And(t >= -H, t <= H, b >= -H, b <= H),
                z3.And((t < b) == (F("sin")(t) < F("sin")(b)), (b < t) == (F("sin")(b) < F("sin")(t))),
            )
        )
    eng.add_axiom(z3.Implies(z3.And(t >= -H, t <= H), z3.And(s >= -1, s <= 1)))
    for u in _apps(eng, "larcsin"):
        eng.add_axiom(z3.Implies(z3.And(u == s, t >= -H, t <= H), F("arcsin")(u) == t))


def _trig(x):
    eng = Engine.cur
    t = _real(x)
    if LIGHT_TRIG:
        if _register(eng, "lsin", t):
            _light_sin_axioms(eng, t)
        return t
    if _register(eng, "trig", t):
        _trig_axioms(eng, t)
    return t


def sin(x):
    t = _trig(x)
    return SV(F("sin")(t))


def cos(x):
    t = _trig(x)
    return SV(F("cos")(t))


def arccos(x):
    eng = Engine.cur
    u = _real(x)
    pi()
    eng.side(z3.And(u >= -1, u <= 1))
    if _register(eng, "arccos", u):
        f = F("arccos")
        eng.add_axiom(z3.And(f(u) >= 0, f(u) <= PI))
        eng.add_axiom(z3.Implies(u == 1, f(u) == 0))
        eng.add_axiom(z3.Implies(u == -1, f(u) == PI))
        eng.add_axiom(z3.Implies(u == 0, f(u) == PI / 2))
        eng.add_axiom(z3.Implies(z3.And(u >= -1, u <= 1, f(u) == 0), u == 1))
        # cos(arccos(u)) = u : register the result as a trig argument
        t = f(u)
        if _register(eng, "trig", t):
            _trig_axioms(eng, t)
        eng.add_axiom(z3.Implies(z3.And(u >= -1, u <= 1), F("cos")(t) == u))
        for b in _apps(eng, "arccos"):
            if not b.eq(u):
                eng.add_axiom(
                    z3.Implies(
                        z3.And(u >= -1, u <= 1, b >= -1, b <= 1),
                        z3.And((u < b) == (f(u) > f(b)), (b < u) == (f(b) > f(u))),
                    )
                )
        for t2 in _apps(eng, "trig"):
            _acos_link(eng, u, t2)
    return SV(F("arccos")(u))


def _light_arcsin(x):
    """light mode: arcsin is a strictly increasing map [-1,1] -> [-pi/2,pi/2], inverse of the light sin"""
    eng = Engine.cur
    u = _real(x)
    pi()
    H = PI / 2
    f = F("arcsin")
    eng.side(z3.And(u >= -1, u <= 1))
    if _register(eng, "larcsin", u):
        eng.add_axiom(z3.And(f(u) >= -H, f(u) <= H))
        eng.add_axiom(z3.Implies(u == 0, f(u) == 0))
        eng.add_axiom(z3.Implies(u == 1, f(u) == H))
        eng.add_axiom(z3.Implies(u == -1, f(u) == -H))
        for b in _apps(eng, "larcsin"):
            if not b.eq(u):
                eng.add_axiom(z3.Implies(z3.And(u >= -1, u <= 1, b >= -1, b <= 1),
                                         z3.And((u < b) == (f(u) < f(b)), (b < u) == (f(b) < f(u)))))
        # sin(arcsin(u)) = u : register the result as a light-sin argument
        t = f(u)
        if _register(eng, "lsin", t):
            _light_sin_axioms(eng, t)
        eng.add_axiom(z3.Implies(z3.And(u >= -1, u <= 1), F("sin")(t) == u))
        for t2 in _apps(eng, "lsin"):
            eng.add_axiom(z3.Implies(z3.And(u == F("sin")(t2), t2 >= -H, t2 <= H), f(u) == t2))
    return SV(f(u))


def arcsin(x):
    if LIGHT_TRIG:
        return _light_arcsin(x)
    eng = Engine.cur
    u = _real(x)
    pi()
    eng.side(z3.And(u >= -1, u <= 1))
    if _register(eng, "arcsin", u):
        f = F("arcsin")
        H = PI / 2
        eng.add_axiom(z3.And(f(u) >= -H, f(u) <= H))
        eng.add_axiom(z3.Implies(u == 0, f(u) == 0))
        eng.add_axiom(z3.Implies(u == 1, f(u) == H))
        eng.add_axiom(z3.Implies(u == -1, f(u) == -H))
        eng.add_axiom(z3.Implies(z3.And(u >= -1, u <= 1), (f(u) >= 0) == (u >= 0)))
        eng.add_axiom(z3.Implies(z3.And(u >= -1, u <= 1), (f(u) == 0) == (u == 0)))
        t = f(u)
        if _register(eng, "trig", t):
            _trig_axioms(eng, t)
        eng.add_axiom(z3.Implies(z3.And(u >= -1, u <= 1), F("sin")(t) == u))
        for b in _apps(eng, "arcsin"):
            if not b.eq(u):
                eng.add_axiom(
                    z3.Implies(
                        z3.And(u >= -1, u <= 1, b >= -1, b <= 1),
                        z3.And((u < b) == (f(u) < f(b)), (b < u) == (f(b) < f(u))),
                    )
                )
        for t2 in _apps(eng, "trig"):
            _asin_link(eng, u, t2)
    return SV(F("arcsin")(u))


# concrete interpretations (used when replaying / cross-validating a model)
def concrete_functions():
    import math

    return {
        "sqrt": math.sqrt,
        "log10": math.log10,
        "exp10": lambda v: 10.0**v,
        "ln": math.log,
        "exp": math.exp,
        "sin": math.sin,
        "cos": math.cos,
        "arcsin": math.asin,
        "arccos": math.acos,
    }
