"""fmtstr -- symbolic fixed-point text fields.

`format(SV, " .10f")` must return a `str`.  The returned string has the SHAPE CPython would produce for a value with k
integer digits (sign/blank, k digits, '.', p decimals) but its first character is a private-use code point that
identifies the formatted term; the other characters are filler digits.  Real string operations of the analysed code
(`"nan" in s`, `s.split(".")[0]`, `len`, slicing a prefix, `" ".join`, `write`) therefore behave as on a real rendering,
and the text can be parsed back symbolically by `parse_token`.

Assumed contract (CPython float.__format__ with presentation 'f'): the correctly rounded decimal expansion with p
decimals; a prefix that cuts the expansion after d < p decimals denotes the value truncated toward zero at d decimals.
Hence parsed = T_d(v) with |T_d(v) - v| <= 10^-d + 10^-p/2, T_d weakly increasing and sign preserving.
k (number of integer digits, 1..KMAX) is decided by the engine (case split on |v| < 10^k).
"""
from __future__ import annotations

import re

import z3

from vf.symx import SV, Engine, R, Unsupported, zval

BASE = 0xE000
KMAX = 6
_REG = {}  # code point -> (z3 term, k, precision)
_FUN = {}


def reset():
    _REG.clear()


def _trunc_fn(d):
    if d not in _FUN:
        _FUN[d] = z3.Function("fmt_trunc_%d" % d, R, R)
    return _FUN[d]


def join_text(parts):
    return "".join(parts)


def format_sv(sv, spec):
    m = re.fullmatch(r"([ +-]?)\.(\d+)([fe])", spec)
    if not m:
        raise Unsupported("format spec %r on a symbolic value" % (spec,))
    sign, prec, kind = m.group(1), int(m.group(2)), m.group(3)
    if kind == "e":
        return " 0." + "0" * prec + "e+00"  # scientific fields are never read back by the library
    eng = Engine.cur
    v = sv.e if not sv.is_int else z3.ToReal(sv.e)
    a = z3.If(v >= 0, v, -v)
    k = None
    for kk in range(1, KMAX + 1):
        if eng.decide(a < z3.RealVal(10**kk)):
            k = kk
            break
    if k is None:
        raise Unsupported("formatted magnitude beyond 10^%d" % KMAX)
    code = BASE + len(_REG)
    _REG[code] = (v, k, prec)
    # leading character: stands for the sign position (' ' / '-'); then k digits, '.', prec decimals
    lead = chr(code)
    if sign == "":
        # without a sign flag a non-negative number has no leading blank: not used by the library
        raise Unsupported("format without sign flag")
    return lead + "7" * k + "." + "7" * prec


def is_token(tok):
    return len(tok) > 0 and BASE <= ord(tok[0]) < BASE + 0x1800


def parse_token(tok):
    """symbolic value denoted by a (possibly prefix-truncated) formatted field"""
    from vf.symx import SV

    eng = Engine.cur
    v, k, prec = _REG[ord(tok[0])]
    body = tok[1:]
    if "." in body:
        ip, dp = body.split(".", 1)
    else:
        ip, dp = body, ""
    if len(ip) != k or set(ip + dp) - {"7"}:
        raise ValueError("could not convert string to float: damaged field %r" % tok)
    d = len(dp)
    if d >= prec:
        bound = z3.RealVal(10) ** (-prec) / 2  # only the rounding of the expansion itself
        d = prec
    else:
        bound = z3.RealVal(1) / z3.RealVal(10**d) + z3.RealVal(1) / z3.RealVal(2 * 10**prec)
    f = _trunc_fn(d)
    apps = eng.uf_apps.setdefault("fmt_trunc_%d" % d, [])
    if not any(b.eq(v) for b in apps):
        for b in apps:
            eng.add_axiom(z3.And(z3.Implies(v <= b, f(v) <= f(b)), z3.Implies(b <= v, f(b) <= f(v))))
        apps.append(v)
        eng.add_axiom(z3.And(f(v) - v <= bound, v - f(v) <= bound))
        eng.add_axiom(z3.And(z3.Implies(v >= 0, f(v) >= 0), z3.Implies(v <= 0, f(v) <= 0)))
    return SV(f(v)), bound


def loadtxt_symbolic(text, ndmin=0, **kw):
    """np.loadtxt over text that may contain symbolic fields: '#' comments skipped, whitespace separated columns"""
    import numpy as np

    from vf.symx import sarr

    rows = []
    for line in text.splitlines():
        line = line.split("#", 1)[0].strip()
        if not line:
            continue
        row = []
        for tok in line.split():
            row.append(parse_token(tok)[0] if is_token(tok) else float(tok))
        rows.append(row)
    if not rows:
        return np.array([])
    if len({len(r) for r in rows}) != 1:
        raise ValueError("the number of columns changed")
    arr = sarr(rows)
    if arr.shape[0] == 1 and ndmin < 2:
        arr = arr[0]  # numpy squeezes a single row
        if arr.shape[0] == 1 and ndmin < 1:
            arr = arr[0]
    elif arr.shape[1] == 1 and ndmin < 2:
        arr = arr[:, 0]
    if kw.get("unpack"):
        arr = arr.T
    return arr


def has_tokens(text):
    return any(BASE <= ord(ch) < BASE + 0x1800 for ch in text)
