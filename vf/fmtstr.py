"""Symbolic text: formatting of symbolic numbers into fixed-width decimal fields and parsing them back (used by the
text-file round trips of C11).  Placeholder API; see C11 for the model."""
from __future__ import annotations

from vf.symx import SV, Unsupported


def join_text(parts):
    return "".join(parts)


def format_sv(sv, spec):
    raise Unsupported("format() of a symbolic value (spec %r)" % (spec,))
