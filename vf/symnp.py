"""symnp -- a numpy facade bound to the name `np` inside analysed yaw modules.

Everything that does not force a machine dtype or call into C on symbolic values
is delegated to real numpy (object arrays of SV).  The kernels re-implemented here
are differential-tested against real numpy at the start of every run
(`conformance()`).
"""
from __future__ import annotations

import contextlib

import numpy as np
import z3

from vf.symx import SArr, SB, SV, Engine, Unsupported, is_symbolic, ite, sarr, zval

_FLOATISH = (float, np.float64, np.float32, "f8", "float", "float64", "<f8", "d")


def _is_float_dtype(dt):
    if dt is None:
        return True
    try:
        return np.dtype(dt).kind == "f"
    except TypeError:
        return False


OBJECT_CREATION = True  # False: creation functions keep machine dtypes (harnesses whose data are concrete)
WRAP_ALL = False  # fsmodel mode: every array created inside analysed modules is an SArr (so that .tofile is modelled)


def _wrap(r):
    if isinstance(r, np.ndarray) and (r.dtype == object or WRAP_ALL) and not isinstance(r, SArr):
        return r.view(SArr)
    if isinstance(r, tuple):
        return tuple(_wrap(x) for x in r)
    if isinstance(r, list):
        return [_wrap(x) for x in r]
    return r


def _obj(a):
    if isinstance(a, np.ndarray):
        return a
    return np.asarray(a, dtype=object) if is_symbolic_seq(a) else np.asarray(a)


def is_symbolic_seq(a):
    if isinstance(a, (SV, SB)):
        return True
    if isinstance(a, np.ndarray):
        return is_symbolic(a)
    if isinstance(a, (list, tuple)):
        return any(is_symbolic_seq(x) for x in a)
    return False


def _defloat(a):
    """an object array without symbolic entries goes back to float64 before it reaches a C kernel"""
    if isinstance(a, np.ndarray) and a.dtype == object:
        return np.asarray(a.view(np.ndarray), dtype=float)
    return a


def _vec(f, a):
    a = np.asarray(a, dtype=object)
    out = np.empty(a.shape, dtype=object)
    for i in np.ndindex(*a.shape):
        out[i] = f(a[i])
    if out.ndim == 0:
        return out[()]
    return out.view(SArr)


def _lift(v):
    """a concrete scalar met inside a symbolic array: real model -> exact rational, float64 model -> the binary64 value"""
    from vf import symx

    if symx.FP_MODE:
        from vf import fpx

        return fpx.SF(fpx.fpval(v))
    return SV(zval(v))


def _lt(a, b):
    r = a < b
    return bool(r)


def _sorted_perm(vals):
    """stable insertion sort with forking comparisons; returns the permutation"""
    idx = list(range(len(vals)))
    for i in range(1, len(idx)):
        j = i
        while j > 0 and _lt(vals[idx[j]], vals[idx[j - 1]]):
            idx[j], idx[j - 1] = idx[j - 1], idx[j]
            j -= 1
    return idx


class Facade:
    """stand-in for the numpy module"""

    # constants / types pass through __getattr__

    def __getattr__(self, name):
        real = getattr(np, name)
        if isinstance(real, type) or not callable(real):
            return real

        def wrapped(*a, **k):
            return _wrap(real(*a, **k))

        wrapped.__name__ = name
        return wrapped

    @property
    def random(self):
        if Engine.cur is None:
            return np.random
        from vf.stubs.rng import FakeRandomModule

        return FakeRandomModule

    @property
    def pi(self):
        from vf import uf

        from vf import symx

        if Engine.cur is None or symx.FP_MODE:
            return np.pi
        return uf.pi()

    # ---- dtype -----------------------------------------------------
    def dtype(self, spec, *a, **k):
        if OBJECT_CREATION and Engine.cur is not None and isinstance(spec, list):
            # float fields hold symbolic reals; integer fields (patch ids) keep their machine type incl. wrap-around
            spec = [(n, "O") if t.kind == "f" else (n, t) for n, t in [(x[0], np.dtype(x[1])) for x in spec]]
        return np.dtype(spec, *a, **k)

    # ---- creation --------------------------------------------------
    def _create(self, fn, shape, dtype, fill=None):
        if not OBJECT_CREATION:
            return _wrap(fn(shape, dtype=dtype) if fill is None else np.full(shape, fill, dtype=dtype))
        if Engine.cur is not None and (_is_float_dtype(dtype)):
            a = np.empty(shape, dtype=object)
            if fill is not None:
                a.fill(fill)
            return a.view(SArr)
        if Engine.cur is not None and isinstance(dtype, (list, np.dtype)) and np.dtype(dtype).names:
            dt = np.dtype(dtype)
            spec = [(n, "O") if dt[n].kind == "f" else (n, dt[n]) for n in dt.names]
            return np.empty(shape, dtype=spec).view(SArr)
        return fn(shape, dtype=dtype) if fill is None else np.full(shape, fill, dtype=dtype)

    def empty(self, shape, dtype=None, **k):
        return self._create(np.empty, shape, dtype)

    def zeros(self, shape, dtype=None, **k):
        return self._create(np.zeros, shape, dtype, fill=0.0)

    def ones(self, shape, dtype=None, **k):
        return self._create(np.ones, shape, dtype, fill=1.0)

    def full(self, shape, fill_value, dtype=None, **k):
        if is_symbolic_seq(fill_value) or Engine.cur is not None:
            if isinstance(fill_value, float) and fill_value != fill_value:
                # NaN does not exist in the model
                return np.full(shape, fill_value)
            a = np.empty(shape, dtype=object)
            a.fill(fill_value)
            return a.view(SArr)
        return np.full(shape, fill_value, dtype=dtype)

    def empty_like(self, a, dtype=None, **k):
        if isinstance(a, np.ndarray) and a.dtype == object:
            return np.empty(a.shape, dtype=object).view(SArr)
        return np.empty_like(a, dtype=dtype)

    def zeros_like(self, a, dtype=None, **k):
        if isinstance(a, np.ndarray) and a.dtype == object or is_symbolic_seq(a):
            out = np.empty(np.shape(a), dtype=object)
            out.fill(0.0)
            return out.view(SArr)
        return np.zeros_like(a, dtype=dtype)

    def ones_like(self, a, dtype=None, **k):
        if isinstance(a, np.ndarray) and a.dtype == object or is_symbolic_seq(a):
            out = np.empty(np.shape(a), dtype=object)
            out.fill(1.0)
            return out.view(SArr)
        return np.ones_like(a, dtype=dtype)

    def asarray(self, a, dtype=None, **k):
        if is_symbolic_seq(a):
            arr = a if isinstance(a, np.ndarray) else np.asarray(a, dtype=object)
            return arr.view(SArr) if not isinstance(arr, SArr) else arr
        return _wrap(np.asarray(a, dtype=dtype, **k))

    def loadtxt(self, path, *a, **k):
        from vf.stubs import fsmodel

        return _wrap(fsmodel.loadtxt(path, *a, **k))

    def fromfile(self, file, dtype=float, **k):
        from vf.stubs import fsmodel

        return _wrap(fsmodel.fromfile(file, dtype=dtype, **k))

    array = asarray

    def ascontiguousarray(self, a, dtype=None):
        if is_symbolic_seq(a):
            return self.asarray(a)
        return np.ascontiguousarray(a, dtype=dtype)

    def asarray_chkfinite(self, a, dtype=None, **k):
        if is_symbolic_seq(a):
            arr = self.asarray(a)
            for v in arr.ravel():
                if isinstance(v, float) and not np.isfinite(v):
                    raise ValueError("array must not contain infs or NaNs")
            return arr
        return np.asarray_chkfinite(a, dtype=dtype, **k)

    def atleast_1d(self, a):
        if is_symbolic_seq(a):
            return np.atleast_1d(np.asarray(a, dtype=object)).view(SArr)
        return np.atleast_1d(a)

    def atleast_2d(self, a):
        if is_symbolic_seq(a):
            return np.atleast_2d(np.asarray(a, dtype=object)).view(SArr)
        return np.atleast_2d(a)

    def linspace(self, start, stop, num=50, **k):
        if is_symbolic_seq(start) or is_symbolic_seq(stop):
            if num == 1:
                return sarr([start])
            out = [start + (stop - start) * SV(z3.RealVal(i) / z3.RealVal(num - 1)) if 0 < i < num - 1 else (start if i == 0 else stop)
                   for i in range(num)]
            return sarr(out)
        return np.linspace(start, stop, num, **k)

    def logspace(self, start, stop, num=50, endpoint=True, base=10.0, **k):
        if is_symbolic_seq(start) or is_symbolic_seq(stop):
            from vf import uf

            lin = self.linspace(start, stop, num)
            return sarr([uf.rpower(base, v) for v in lin])
        return np.logspace(start, stop, num, endpoint=endpoint, base=base, **k)

    def append(self, arr, values, axis=None):
        if is_symbolic_seq(arr) or is_symbolic_seq(values):
            a = np.asarray(arr, dtype=object).ravel() if axis is None else np.asarray(arr, dtype=object)
            v = np.asarray(values, dtype=object)
            v = v.ravel() if axis is None else v
            return np.concatenate([a, np.atleast_1d(v)], axis=0 if axis is None else axis).view(SArr)
        return np.append(arr, values, axis=axis)

    # ---- elementwise -----------------------------------------------
    def sqrt(self, a):
        if is_symbolic_seq(a):
            return _vec(lambda v: v.sqrt() if isinstance(v, SV) else _lift(v).sqrt(), a)
        return np.sqrt(_defloat(a))

    def _unary(name):
        def f(self, a, *args, **k):
            if is_symbolic_seq(a):
                return _vec(lambda v: getattr(v if isinstance(v, SV) else _lift(v), name)(), a)
            return getattr(np, name)(_defloat(a), *args, **k)

        f.__name__ = name
        return f

    log10 = _unary("log10")
    log = _unary("log")
    exp = _unary("exp")
    sin = _unary("sin")
    cos = _unary("cos")
    arcsin = _unary("arcsin")
    arccos = _unary("arccos")
    deg2rad = _unary("deg2rad")
    rad2deg = _unary("rad2deg")
    radians = _unary("deg2rad")
    del _unary

    def abs(self, a):
        if is_symbolic_seq(a):
            return _vec(lambda v: abs(v), a)
        return np.abs(a)

    absolute = abs

    def sign(self, a):
        if is_symbolic_seq(a):
            return _vec(lambda v: ite(v > 0, 1.0, ite(v < 0, -1.0, 0.0)) if isinstance(v, SV) else float(np.sign(v)), a)
        return np.sign(a)

    def where(self, cond, x=None, y=None):
        if x is None:
            return np.where(cond)
        if is_symbolic_seq(x) or is_symbolic_seq(y) or is_symbolic_seq(cond):
            c, xx, yy = np.broadcast_arrays(np.asarray(cond, dtype=object), np.asarray(x, dtype=object), np.asarray(y, dtype=object))
            out = np.empty(c.shape, dtype=object)
            for i in np.ndindex(*c.shape):
                ci = c[i]
                if isinstance(ci, SB):
                    out[i] = ite(ci, xx[i], yy[i])
                else:
                    out[i] = xx[i] if ci else yy[i]
            return out.view(SArr) if out.ndim else out[()]
        return np.where(cond, x, y)

    def divide(self, x, y, out=None, where=True, **k):
        if is_symbolic_seq(x) or is_symbolic_seq(y):
            xx, yy, ww = np.broadcast_arrays(np.asarray(x, dtype=object), np.asarray(y, dtype=object), np.asarray(where))
            res = out if out is not None else np.empty(xx.shape, dtype=object).view(SArr)
            for i in np.ndindex(*xx.shape):
                if bool(ww[i]):
                    res[i] = xx[i] / yy[i]
            return res
        return np.divide(x, y, out=out, where=where, **k)

    def isfinite(self, a):
        if is_symbolic_seq(a):
            return _vec(lambda v: True if isinstance(v, SV) else bool(np.isfinite(v)), a).astype(bool) if np.ndim(a) else True
        return np.isfinite(a)

    def isnan(self, a):
        if is_symbolic_seq(a):
            return np.zeros(np.shape(a), dtype=bool)
        return np.isnan(a)

    def isscalar(self, a):
        return isinstance(a, SV) or np.isscalar(a)

    def minimum(self, a, b):
        if is_symbolic_seq(a) or is_symbolic_seq(b):
            aa, bb = np.broadcast_arrays(np.asarray(a, dtype=object), np.asarray(b, dtype=object))
            return _vec(lambda t: ite(t[0] <= t[1], t[0], t[1]), _pairs(aa, bb))
        return np.minimum(a, b)

    def maximum(self, a, b):
        if is_symbolic_seq(a) or is_symbolic_seq(b):
            aa, bb = np.broadcast_arrays(np.asarray(a, dtype=object), np.asarray(b, dtype=object))
            return _vec(lambda t: ite(t[0] >= t[1], t[0], t[1]), _pairs(aa, bb))
        return np.maximum(a, b)

    # ---- reductions --------------------------------------------------
    def any(self, a, axis=None, **k):
        arr = np.asarray(a) if not isinstance(a, np.ndarray) else a
        if arr.dtype == object:
            if axis is not None:
                return np.apply_along_axis(lambda v: self.any(v), axis, arr).astype(bool)
            for v in arr.ravel():
                if isinstance(v, SV):
                    v = v != 0
                if v:
                    return True
            return False
        return np.any(arr, axis=axis, **k)

    def all(self, a, axis=None, **k):
        arr = np.asarray(a) if not isinstance(a, np.ndarray) else a
        if arr.dtype == object:
            if axis is not None:
                return np.apply_along_axis(lambda v: self.all(v), axis, arr).astype(bool)
            for v in arr.ravel():
                if isinstance(v, SV):
                    v = v != 0
                if not v:
                    return False
            return True
        return np.all(arr, axis=axis, **k)

    def nonzero(self, a):
        arr = np.asarray(a) if not isinstance(a, np.ndarray) else a
        if arr.dtype == object:
            mask = np.zeros(arr.shape, dtype=bool)
            for i in np.ndindex(*arr.shape):
                v = arr[i]
                mask[i] = bool(v != 0) if isinstance(v, SV) else bool(v)
            return np.nonzero(mask)
        return np.nonzero(arr)

    def _extreme(self, a, axis, pick_less):
        arr = np.asarray(a, dtype=object) if not isinstance(a, np.ndarray) else a
        if arr.dtype != object or not is_symbolic(arr):
            return None
        if axis is not None:
            moved = np.moveaxis(arr, axis, -1)
            out = np.empty(moved.shape[:-1], dtype=object)
            for i in np.ndindex(*moved.shape[:-1]):
                out[i] = self._extreme(moved[i], None, pick_less)[1]
            return None, out.view(SArr)
        flat = list(arr.ravel())
        if not flat:
            raise ValueError("zero-size array to reduction operation which has no identity")
        best = 0
        for i in range(1, len(flat)):
            c = (flat[i] < flat[best]) if pick_less else (flat[i] > flat[best])
            if bool(c):
                best = i
        return best, flat[best]

    def min(self, a, axis=None, **k):
        r = self._extreme(a, axis, True)
        return np.min(np.asarray(a).view(np.ndarray) if isinstance(a, np.ndarray) else a, axis=axis, **k) if r is None else r[1]

    def max(self, a, axis=None, **k):
        r = self._extreme(a, axis, False)
        return np.max(np.asarray(a).view(np.ndarray) if isinstance(a, np.ndarray) else a, axis=axis, **k) if r is None else r[1]

    amin = min
    amax = max

    def argmin(self, a, axis=None, **k):
        r = self._extreme(a, axis, True) if axis is None else None
        return np.argmin(a, axis=axis, **k) if r is None else r[0]

    def argmax(self, a, axis=None, **k):
        r = self._extreme(a, axis, False) if axis is None else None
        return np.argmax(a, axis=axis, **k) if r is None else r[0]

    def sum(self, a, axis=None, **k):
        return _wrap(np.sum(a, axis=axis, **k))

    def nansum(self, a, axis=None, **k):
        if is_symbolic_seq(a):
            return _wrap(np.sum(np.asarray(a, dtype=object), axis=axis))  # NaN outside the model
        return np.nansum(a, axis=axis, **k)

    def average(self, a, axis=None, weights=None, **k):
        if is_symbolic_seq(a) or is_symbolic_seq(weights):
            arr = np.asarray(a, dtype=object)
            if weights is None:
                n = arr.shape[axis] if axis is not None else arr.size
                return _wrap(arr.sum(axis=axis) / n)
            w = np.asarray(weights, dtype=object)
            if axis is None:
                return (arr * w).sum() / w.sum()
            shape = [1] * arr.ndim
            shape[axis] = -1
            wb = w.reshape(shape)
            return _wrap((arr * wb).sum(axis=axis) / w.sum())
        return np.average(a, axis=axis, weights=weights, **k)

    def mean(self, a, axis=None, **k):
        return self.average(a, axis=axis)

    def diff(self, a, n=1, axis=-1):
        arr = np.asarray(a) if not isinstance(a, np.ndarray) else a
        if arr.dtype == object and n == 1 and arr.ndim == 1:
            return (arr[1:] - arr[:-1]).view(SArr)
        return _wrap(np.diff(arr, n=n, axis=axis))

    def cov(self, m, y=None, rowvar=True, bias=False, ddof=None, **k):
        if is_symbolic_seq(m):
            X = np.asarray(m, dtype=object)
            if X.ndim == 1:
                X = X.reshape(1, -1)
            if not rowvar and X.shape[0] != 1:
                X = X.T
            nobs = X.shape[1]
            if ddof is None:
                ddof = 0 if bias else 1
            fact = nobs - ddof
            nvar = X.shape[0]
            mean = [sum(X[i, :].tolist(), 0) / nobs for i in range(nvar)]
            out = np.empty((nvar, nvar), dtype=object)
            for i in range(nvar):
                for j in range(nvar):
                    out[i, j] = sum(((X[i, k2] - mean[i]) * (X[j, k2] - mean[j]) for k2 in range(nobs)), 0) / fact
            if nvar == 1:
                return out[0, 0]
            return out.view(SArr)
        return np.cov(m, y=y, rowvar=rowvar, bias=bias, ddof=ddof, **k)

    # ---- sorting / searching ------------------------------------------
    def argsort(self, a, axis=-1, kind=None, **k):
        arr = np.asarray(a) if not isinstance(a, np.ndarray) else a
        if arr.dtype == object and is_symbolic(arr):
            if arr.ndim != 1:
                raise Unsupported("argsort of symbolic n-d array")
            return np.array(_sorted_perm(list(arr)), dtype=np.intp)
        return np.argsort(arr, axis=axis, kind=kind, **k)

    def sort(self, a, axis=-1, **k):
        arr = np.asarray(a) if not isinstance(a, np.ndarray) else a
        if arr.dtype == object and is_symbolic(arr):
            if arr.ndim != 1:
                raise Unsupported("sort of symbolic n-d array")
            return arr[np.array(_sorted_perm(list(arr)), dtype=np.intp)].view(SArr)
        return np.sort(arr, axis=axis, **k)

    def unique(self, a, return_index=False, return_inverse=False, return_counts=False, **k):
        arr = np.asarray(a) if not isinstance(a, np.ndarray) else a
        if arr.dtype == object and is_symbolic(arr):
            if return_inverse or return_counts:
                raise Unsupported("unique(return_inverse/counts) on symbolic values")
            flat = arr.ravel()
            perm = _sorted_perm(list(flat))
            uniq, first = [], []
            for p in perm:
                if not uniq or not bool(flat[p] == uniq[-1]):
                    uniq.append(flat[p])
                    first.append(p)
                else:
                    first[-1] = min(first[-1], p)
            u = np.array(uniq, dtype=object).view(SArr)
            if return_index:
                return u, np.array(first, dtype=np.intp)
            return u
        return np.unique(arr, return_index=return_index, return_inverse=return_inverse, return_counts=return_counts, **k)

    def digitize(self, x, bins, right=False):
        if is_symbolic_seq(x) or is_symbolic_seq(bins):
            xs = np.asarray(x, dtype=object)
            bs = list(np.asarray(bins, dtype=object).ravel())
            out = np.empty(xs.shape, dtype=np.int64)
            for i in np.ndindex(*xs.shape):
                n = 0
                for b in bs:  # bins monotonically increasing (numpy's precondition)
                    c = (b < xs[i]) if right else (b <= xs[i])
                    if bool(c):
                        n += 1
                    else:
                        break
                out[i] = n
            return out
        return np.digitize(x, bins, right=right)

    def searchsorted(self, a, v, side="left", sorter=None):
        if is_symbolic_seq(a) or is_symbolic_seq(v):
            if sorter is not None:
                raise Unsupported("searchsorted(sorter)")
            # side=left: count of a < v ; side=right: count of a <= v
            scalar = np.ndim(v) == 0
            r = self.digitize(np.atleast_1d(np.asarray(v, dtype=object)), a, right=(side == "left"))
            return int(r[0]) if scalar else r
        return np.searchsorted(a, v, side=side, sorter=sorter)

    def histogram(self, a, bins=10, range=None, density=None, weights=None):
        if is_symbolic_seq(a) or is_symbolic_seq(bins) or is_symbolic_seq(weights):
            if np.ndim(bins) != 1 or range is not None or density:
                raise Unsupported("histogram variant")
            xs = list(np.asarray(a, dtype=object).ravel())
            es = list(np.asarray(bins, dtype=object).ravel())
            nb = len(es) - 1
            ws = None if weights is None else list(np.asarray(weights, dtype=object).ravel())
            sym_w = ws is not None
            counts = [0.0 if sym_w else 0 for _ in es[:-1]]
            for j, xv in enumerate(xs):
                if bool(xv < es[0]) or bool(xv > es[-1]):
                    continue
                # numpy: bins are [e_i, e_{i+1}) except the last which is closed on both sides
                k2 = None
                for i in builtins_range(nb):
                    last = i == nb - 1
                    inside = (xv < es[i + 1]) if not last else (xv <= es[i + 1])
                    if bool(inside):
                        k2 = i
                        break
                if k2 is None:
                    continue
                counts[k2] = counts[k2] + (ws[j] if sym_w else 1)
            if sym_w:
                return sarr(counts), np.asarray(bins)
            return np.array(counts, dtype=np.int64), np.asarray(bins)
        return np.histogram(a, bins=bins, range=range, density=density, weights=weights)

    def bincount(self, x, weights=None, minlength=0):
        if is_symbolic_seq(weights):
            x = np.asarray(x)
            n = max(int(x.max()) + 1 if len(x) else 0, minlength)
            out = [0.0] * n
            for i, w in zip(x.tolist(), list(weights)):
                out[i] = out[i] + w
            return sarr(out)
        return np.bincount(x, weights=weights, minlength=minlength)

    def array_equal(self, a, b, equal_nan=False):
        if is_symbolic_seq(a) or is_symbolic_seq(b):
            aa, bb = np.asarray(a, dtype=object), np.asarray(b, dtype=object)
            if aa.shape != bb.shape:
                return False
            for i in np.ndindex(*aa.shape):
                if not bool(aa[i] == bb[i]):
                    return False
            return True
        return np.array_equal(a, b, equal_nan=equal_nan)

    def allclose(self, a, b, **k):
        if is_symbolic_seq(a) or is_symbolic_seq(b):
            return self.array_equal(a, b)
        return np.allclose(a, b, **k)

    def einsum(self, *a, **k):
        return _wrap(np.einsum(*a, **k))

    def outer(self, a, b):
        if is_symbolic_seq(a) or is_symbolic_seq(b):
            aa = np.asarray(a, dtype=object).ravel()
            bb = np.asarray(b, dtype=object).ravel()
            return (aa[:, None] * bb[None, :]).view(SArr)
        return np.outer(a, b)


builtins_range = range


def _pairs(a, b):
    out = np.empty(a.shape, dtype=object)
    for i in np.ndindex(*a.shape):
        out[i] = (a[i], b[i])
    return out


FACADE = Facade()


class _FloatMeta(type):
    def __instancecheck__(cls, obj):
        return isinstance(obj, float)

    def __subclasscheck__(cls, sub):
        return issubclass(sub, float)


class _ident_float(float, metaclass=_FloatMeta):
    """stands in for the builtin `float` inside analysed modules: identity on symbolic scalars"""

    def __new__(cls, x=0.0):
        if isinstance(x, SV):
            return x
        if isinstance(x, np.ndarray) and x.dtype == object and x.ndim == 0:
            return _ident_float(x[()])
        return float(x)


class _IntMeta(type):
    def __instancecheck__(cls, obj):
        return isinstance(obj, int)

    def __subclasscheck__(cls, sub):
        return issubclass(sub, int)


class _ident_int(int, metaclass=_IntMeta):
    def __new__(cls, x=0, *a):
        if isinstance(x, SV):
            if x.is_int:
                return x
            return int(x)
        return int(x, *a)

    from_bytes = int.from_bytes


@contextlib.contextmanager
def install(*modules, shadow_float=True, extra=None):
    """Bind the facade to `np` in the given modules (and shadow `float`/`int`)."""
    saved = []
    try:
        for m in modules:
            d = m.__dict__
            for name, val in (("np", FACADE),) + ((("float", _ident_float), ("int", _ident_int)) if shadow_float else ()):
                if name == "np" and "np" not in d:
                    continue
                saved.append((d, name, d.get(name, _MISSING)))
                d[name] = val
            for name, val in (extra or {}).get(m.__name__, {}).items():
                saved.append((d, name, d.get(name, _MISSING)))
                d[name] = val
        yield FACADE
    finally:
        for d, name, old in reversed(saved):
            if old is _MISSING:
                d.pop(name, None)
            else:
                d[name] = old


_MISSING = object()


# ----------------------------------------------------------------------
def conformance(rng_seed=0):
    """Differential test of the re-implemented kernels against real numpy on
    concrete inputs routed through the symbolic code path (constants wrapped in SV).
    Returns the number of comparisons made; raises AssertionError on mismatch."""
    from vf.symx import explore, concretise, model_value

    rng = np.random.default_rng(rng_seed)
    n = 0

    def lift(a):
        a = np.asarray(a, dtype=float)
        out = np.empty(a.shape, dtype=object)
        for i in np.ndindex(*a.shape):
            out[i] = SV(zval(float(a[i])))
        return out.view(SArr)

    def low(x):
        if isinstance(x, SV):
            from vf.symx import _num

            return float(_num(x.e))
        if isinstance(x, np.ndarray) and x.dtype == object:
            out = np.empty(x.shape, dtype=float)
            for i in np.ndindex(*x.shape):
                out[i] = low(x[i])
            return out
        return x

    cases = []
    for _ in range(6):
        x = rng.integers(-3, 4, size=5).astype(float) / 2
        bins = np.array([-1.0, 0.0, 0.5, 1.0])
        w = rng.integers(1, 5, size=5).astype(float)
        cases.append((x, bins, w))

    res = {}

    def run(eng):
        f = FACADE
        k = 0
        for x, bins, w in cases:
            for right in (False, True):
                assert np.array_equal(f.digitize(lift(x), lift(bins), right=right), np.digitize(x, bins, right=right)), "digitize"
                k += 1
            h, _ = f.histogram(lift(x), lift(bins), weights=lift(w))
            assert np.allclose(low(h), np.histogram(x, bins, weights=w)[0]), "histogram(w)"
            h, _ = f.histogram(lift(x), lift(bins))
            assert np.array_equal(h, np.histogram(x, bins)[0]), "histogram"
            assert np.allclose(low(f.sort(lift(x))), np.sort(x)), "sort"
            assert np.allclose(x[f.argsort(lift(x))], np.sort(x)), "argsort"
            u, idx = f.unique(lift(x), return_index=True)
            ur, idxr = np.unique(x, return_index=True)
            assert np.allclose(low(u), ur) and np.array_equal(idx, idxr), "unique"
            assert f.argmin(lift(x)) == np.argmin(x) and f.argmax(lift(x)) == np.argmax(x), "argmin/max"
            assert low(f.min(lift(x))) == x.min() and low(f.max(lift(x))) == x.max(), "min/max"
            assert np.allclose(low(f.diff(lift(x))), np.diff(x)), "diff"
            assert np.allclose(low(f.abs(lift(x))), np.abs(x)), "abs"
            assert np.allclose(low(f.sign(lift(x))), np.sign(x)), "sign"
            m = rng.integers(-3, 4, size=(4, 3)).astype(float)
            assert np.allclose(low(f.cov(lift(m), rowvar=False, ddof=0)), np.cov(m, rowvar=False, ddof=0)), "cov"
            assert np.allclose(low(f.average(lift(m), axis=0, weights=lift(w[:4]))), np.average(m, axis=0, weights=w[:4])), "average"
            assert np.array_equal(f.nonzero(lift(x))[0], np.nonzero(x)[0]), "nonzero"
            assert bool(f.any(lift(x))) == bool(np.any(x)), "any"
            assert np.allclose(low(f.where(lift(x) == 0, 1.0, f.sign(lift(x)))), np.where(x == 0, 1.0, np.sign(x))), "where"
            assert np.allclose(low(f.linspace(lift([x[0]])[0], lift([x[0] + 2])[0], 4)), np.linspace(x[0], x[0] + 2, 4)), "linspace"
            assert np.allclose(low(f.append(lift(x), lift([1.0])[0])), np.append(x, 1.0)), "append"
            assert f.searchsorted(lift(bins), lift([x[0]])[0]) == np.searchsorted(bins, x[0]), "searchsorted"
            k += 20
        res["n"] = k
        return None

    eng, paths, ex = explore(run, max_paths=5)
    assert len(paths) == 1 and paths[0]["kind"] == "ok", ("conformance run failed", paths[0]["kind"], paths[0]["exc"])
    return res["n"]
