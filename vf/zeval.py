"""Float evaluation of z3 terms under an explicit assignment of the input symbols; uninterpreted
transcendental functions get their real-world interpretation (math.*).  Used only for replay /
cross-validation, never for deciding a property."""
from __future__ import annotations

import math

import z3

_UF = {
    "sqrt": lambda v: math.sqrt(v) if v >= 0 else float("nan"),
    "log10": lambda v: math.log10(v) if v > 0 else float("nan"),
    "exp10": lambda v: 10.0**v,
    "ln": lambda v: math.log(v) if v > 0 else float("nan"),
    "exp": math.exp,
    "sin": math.sin,
    "cos": math.cos,
    "arcsin": lambda v: math.asin(max(-1.0, min(1.0, v))),
    "arccos": lambda v: math.acos(max(-1.0, min(1.0, v))),
    "pow": lambda a, b: a**b if a > 0 else float("nan"),
}


def feval(e, env, cache=None):
    """env: dict z3-const-id -> python number.  Returns float / int / bool."""
    if cache is None:
        cache = {}
    i = e.get_id()
    if i in cache:
        return cache[i]
    r = _feval(e, env, cache)
    cache[i] = r
    return r


def _feval(e, env, cache):
    if z3.is_int_value(e):
        return e.as_long()
    if z3.is_rational_value(e):
        return e.numerator_as_long() / e.denominator_as_long()
    if z3.is_algebraic_value(e):
        return float(e.approx(20).as_fraction())
    if z3.is_true(e):
        return True
    if z3.is_false(e):
        return False
    if not z3.is_app(e):
        raise ValueError("cannot evaluate %s" % e)
    d = e.decl()
    k = d.kind()
    if k == z3.Z3_OP_UNINTERPRETED:
        if e.num_args() == 0:
            if e.get_id() in env:
                return env[e.get_id()]
            if d.name() == "pi":
                return math.pi
            raise KeyError("no value for symbol %s" % e)
        f = _UF.get(d.name())
        if f is None:
            raise KeyError("no interpretation for %s" % d.name())
        return f(*[feval(c, env, cache) for c in e.children()])
    ch = e.children()
    if k == z3.Z3_OP_ITE:
        return feval(ch[1], env, cache) if feval(ch[0], env, cache) else feval(ch[2], env, cache)
    if k == z3.Z3_OP_AND:
        return all(feval(c, env, cache) for c in ch)
    if k == z3.Z3_OP_OR:
        return any(feval(c, env, cache) for c in ch)
    if k == z3.Z3_OP_IMPLIES:
        return (not feval(ch[0], env, cache)) or feval(ch[1], env, cache)
    vals = [feval(c, env, cache) for c in ch]
    if k == z3.Z3_OP_ADD:
        return sum(vals)
    if k == z3.Z3_OP_SUB:
        r = vals[0]
        for v in vals[1:]:
            r -= v
        return r
    if k == z3.Z3_OP_UMINUS:
        return -vals[0]
    if k == z3.Z3_OP_MUL:
        r = 1
        for v in vals:
            r *= v
        return r
    if k == z3.Z3_OP_DIV:
        return vals[0] / vals[1] if vals[1] != 0 else float("nan")
    if k == z3.Z3_OP_IDIV:
        return vals[0] // vals[1] if vals[1] != 0 else 0
    if k == z3.Z3_OP_MOD:
        return vals[0] % vals[1] if vals[1] != 0 else 0
    if k == z3.Z3_OP_POWER:
        return vals[0] ** vals[1]
    if k in (z3.Z3_OP_TO_REAL,):
        return float(vals[0])
    if k == z3.Z3_OP_TO_INT:
        return math.floor(vals[0])
    if k == z3.Z3_OP_LE:
        return vals[0] <= vals[1]
    if k == z3.Z3_OP_LT:
        return vals[0] < vals[1]
    if k == z3.Z3_OP_GE:
        return vals[0] >= vals[1]
    if k == z3.Z3_OP_GT:
        return vals[0] > vals[1]
    if k == z3.Z3_OP_EQ:
        return vals[0] == vals[1]
    if k == z3.Z3_OP_DISTINCT:
        return len(set(vals)) == len(vals)
    if k == z3.Z3_OP_NOT:
        return not vals[0]
    if k == z3.Z3_OP_XOR:
        return bool(vals[0]) != bool(vals[1])
    raise ValueError("cannot evaluate operator %s" % d.name())
