"""IEEE-754 binary64 scalars for the per-path executor.

`SF` is a drop-in sibling of `symx.SV` whose term is a z3 FloatingPoint(11, 53) expression: + - * / sqrt are the
correctly rounded (round-to-nearest-even) operations numpy performs on float64, comparisons are the IEEE predicates.
It exists for the few kernels whose property is about rounding itself (cancellation, a result one ulp beyond a
domain limit) and that consist of arithmetic and square roots only.  Transcendental functions are NOT modelled in
this mode: `arcsin` / `sin` are uninterpreted float functions constrained by facts that hold for every libm
(sign preservation, zero iff zero), and are only allowed at the very end of a kernel.

The engine's generic solver decides branch feasibility; obligations go through z3's QF_FP tactic (bit-blasting), see
symx._strategies (FP_MODE).
"""
from __future__ import annotations

import fractions
import math

import numpy as np
import z3

from vf import symx
from vf.symx import SB, SV, Engine, Unsupported

F64 = z3.Float64()
RM = z3.RNE()


def fpval(x):
    """exact binary64 constant"""
    if isinstance(x, np.ndarray) and x.ndim == 0:
        x = x.item()
    if isinstance(x, SF):
        return x.e
    if isinstance(x, (bool, np.bool_)):
        return z3.FPVal(1.0 if x else 0.0, F64)
    if isinstance(x, (int, np.integer)):
        if abs(int(x)) > 2**53:
            raise Unsupported("integer constant not exactly representable")
        return z3.FPVal(float(int(x)), F64)
    if isinstance(x, (float, np.floating)):
        x = float(x)
        if x != x:
            return z3.fpNaN(F64)
        if x == math.inf:
            return z3.fpPlusInfinity(F64)
        if x == -math.inf:
            return z3.fpMinusInfinity(F64)
        return z3.FPVal(x, F64)
    if z3.is_expr(x) and z3.is_fp(x):
        return x
    raise Unsupported("cannot coerce %s into the float64 model" % type(x).__name__)


class SF(SV):
    """symbolic IEEE binary64 scalar"""

    __slots__ = ()

    @property
    def is_int(self):
        return False

    def _bin(self, o, f, swap=False):
        try:
            b = fpval(o)
        except Unsupported:
            return NotImplemented
        a = self.e
        if swap:
            a, b = b, a
        return SF(f(a, b))

    def __add__(self, o):
        return self._bin(o, lambda a, b: z3.fpAdd(RM, a, b))

    def __radd__(self, o):
        return self._bin(o, lambda a, b: z3.fpAdd(RM, a, b), True)

    def __sub__(self, o):
        return self._bin(o, lambda a, b: z3.fpSub(RM, a, b))

    def __rsub__(self, o):
        return self._bin(o, lambda a, b: z3.fpSub(RM, a, b), True)

    def __mul__(self, o):
        return self._bin(o, lambda a, b: z3.fpMul(RM, a, b))

    def __rmul__(self, o):
        return self._bin(o, lambda a, b: z3.fpMul(RM, a, b), True)

    def __truediv__(self, o):
        return self._bin(o, lambda a, b: z3.fpDiv(RM, a, b))

    def __rtruediv__(self, o):
        return self._bin(o, lambda a, b: z3.fpDiv(RM, a, b), True)

    def __floordiv__(self, o):
        raise Unsupported("floordiv in the float64 model")

    def __neg__(self):
        return SF(z3.fpNeg(self.e))

    def __abs__(self):
        return SF(z3.fpAbs(self.e))

    def __pow__(self, o):
        # numpy evaluates x ** 2 on float64 as x * x (np.square fast path of the power ufunc)
        if isinstance(o, (int, np.integer, float)) and float(o) == 2.0:
            return SF(z3.fpMul(RM, self.e, self.e))
        if isinstance(o, (int, np.integer, float)) and float(o) == 1.0:
            return self
        raise Unsupported("power %r in the float64 model" % (o,))

    def __rpow__(self, base):
        raise Unsupported("rpow in the float64 model")

    def _cmp(self, o, f):
        try:
            b = fpval(o)
        except Unsupported:
            return NotImplemented
        return SB(f(self.e, b))

    def __lt__(self, o):
        return self._cmp(o, z3.fpLT)

    def __le__(self, o):
        return self._cmp(o, z3.fpLEQ)

    def __gt__(self, o):
        return self._cmp(o, z3.fpGT)

    def __ge__(self, o):
        return self._cmp(o, z3.fpGEQ)

    def __eq__(self, o):
        if o is None:
            return False
        return self._cmp(o, z3.fpEQ)

    def __ne__(self, o):
        if o is None:
            return True
        return self._cmp(o, lambda a, b: z3.Not(z3.fpEQ(a, b)))

    def __hash__(self):
        return hash(self.e)

    def __float__(self):
        v = z3.simplify(self.e)
        if z3.is_fp_value(v):
            return fp_to_float(v)
        raise Unsupported("float() of a symbolic value")

    def __int__(self):
        raise Unsupported("int() of a symbolic float")

    __index__ = __int__

    def __repr__(self):
        return "SF(%s)" % self.e

    def __format__(self, spec):
        raise Unsupported("formatting in the float64 model")

    def sqrt(self):
        return SF(z3.fpSqrt(RM, self.e))

    def _ordinary(self):
        return z3.And(z3.Not(z3.fpIsNaN(self.e)), z3.Not(z3.fpIsInf(self.e)))

    def arcsin(self):
        """uninterpreted libm arcsin; facts assumed of every libm: NaN outside [-1, 1]; inside: finite, |r| <= fl(pi/2), sign
        preserving, zero only at zero"""
        f = z3.Function("fp_arcsin", F64, F64)
        x, r = self.e, f(self.e)
        eng = Engine.cur
        if eng is not None:
            one, zero, half_pi = fpval(1.0), fpval(0.0), fpval(math.pi / 2)
            inside = z3.And(z3.fpLEQ(z3.fpAbs(x), one))
            eng.add_axiom(z3.Implies(z3.Not(inside), z3.fpIsNaN(r)))
            eng.add_axiom(z3.Implies(inside, z3.And(z3.Not(z3.fpIsNaN(r)), z3.fpLEQ(z3.fpAbs(r), half_pi))))
            eng.add_axiom(z3.Implies(z3.fpIsZero(x), z3.fpIsZero(r)))
            eng.add_axiom(z3.Implies(z3.And(inside, z3.fpGT(x, zero)), z3.fpGT(r, zero)))
            eng.add_axiom(z3.Implies(z3.And(inside, z3.fpLT(x, zero)), z3.fpLT(r, zero)))
        return SF(r)

    def arccos(self):
        """uninterpreted libm arccos; facts assumed of every libm: NaN outside [-1, 1]; inside: 0 <= r <= fl(pi), r = 0 only
        at 1, and r >= 2^-27 below 1 (arccos(1 - 2^-53) = 1.49e-8 is the smallest non-zero value)"""
        f = z3.Function("fp_arccos", F64, F64)
        x, r = self.e, f(self.e)
        eng = Engine.cur
        if eng is not None:
            one, zero = fpval(1.0), fpval(0.0)
            inside = z3.fpLEQ(z3.fpAbs(x), one)
            eng.add_axiom(z3.Implies(z3.Not(inside), z3.fpIsNaN(r)))
            eng.add_axiom(z3.Implies(inside, z3.And(z3.fpGEQ(r, zero), z3.fpLEQ(r, fpval(math.pi)))))
            eng.add_axiom(z3.Implies(z3.fpEQ(x, one), z3.fpIsZero(r)))
            eng.add_axiom(z3.Implies(z3.And(inside, z3.fpLT(x, one)), z3.fpGEQ(r, fpval(2.0**-27))))
        return SF(r)

    def __mod__(self, o):
        """numpy's float remainder for a positive constant modulus, modelled on |x| < m only (side condition): fmod is then
        the identity and a negative value is moved up by one modulus (one rounded addition)"""
        m = fpval(o)
        mv = z3.simplify(m)
        if not z3.is_fp_value(mv) or not fp_to_float(mv) > 0:
            raise Unsupported("mod by a non-constant or non-positive modulus in the float64 model")
        eng = Engine.cur
        if eng is not None:
            eng.side(z3.fpLT(z3.fpAbs(self.e), m))
        return SF(z3.If(z3.fpLT(self.e, fpval(0.0)), z3.fpAdd(RM, self.e, m), self.e))

    def __rmod__(self, o):
        raise Unsupported("rmod in the float64 model")

    def _sincos(self):
        """uninterpreted libm sin / cos of the same argument; facts assumed of every faithful libm: finite in [-1, 1] for
        finite arguments, max(|sin|, |cos|) >= 1/2, cos >= 2^-54 on [-fl(pi/2), fl(pi/2)] (cos(fl(pi/2)) = 6.1e-17),
        |sin x| <= |x|, sin(0) = 0, cos(0) = 1, and |sin x| < 1 exactly for |x| <= T, sin x = +-1 for T < |x| <= fl(pi/2), where
        T (about pi/2 - 1.05e-8: 1 - d^2/2 rounds to 1 beyond it) is measured on the platform libm by bisection at run time"""
        fs, fc = z3.Function("fp_sin", F64, F64), z3.Function("fp_cos", F64, F64)
        x, sn, cs = self.e, fs(self.e), fc(self.e)
        eng = Engine.cur
        if eng is not None:
            one, half, hp = fpval(1.0), fpval(0.5), fpval(math.pi / 2)
            fin = self._ordinary()
            eng.add_axiom(z3.Implies(fin, z3.And(z3.fpLEQ(z3.fpAbs(sn), one), z3.fpLEQ(z3.fpAbs(cs), one))))
            eng.add_axiom(z3.Implies(fin, z3.Or(z3.fpGEQ(z3.fpAbs(sn), half), z3.fpGEQ(z3.fpAbs(cs), half))))
            eng.add_axiom(z3.Implies(z3.fpLEQ(z3.fpAbs(x), hp), z3.fpGEQ(cs, fpval(2.0**-54))))
            t = _sin_one_threshold()
            near = fpval(float(np.nextafter(t, 4.0)))
            eng.add_axiom(z3.Implies(fin, z3.fpLEQ(z3.fpAbs(sn), z3.fpAbs(x))))
            eng.add_axiom(z3.Implies(z3.fpLEQ(z3.fpAbs(x), fpval(t)), z3.fpLT(z3.fpAbs(sn), one)))
            eng.add_axiom(z3.Implies(z3.And(z3.fpGEQ(x, near), z3.fpLEQ(x, hp)), z3.fpEQ(sn, one)))
            eng.add_axiom(z3.Implies(z3.And(z3.fpLEQ(x, z3.fpNeg(near)), z3.fpGEQ(x, z3.fpNeg(hp))), z3.fpEQ(sn, z3.fpNeg(one))))
            eng.add_axiom(z3.Implies(z3.fpIsZero(x), z3.And(z3.fpIsZero(sn), z3.fpEQ(cs, one))))
        return SF(sn), SF(cs)

    def sin(self):
        return self._sincos()[0]

    def cos(self):
        return self._sincos()[1]

    def log10(self):
        raise Unsupported("log/exp in the float64 model")

    log = exp = deg2rad = rad2deg = log10


_SIN_T = []


def _sin_one_threshold():
    """largest float64 T < pi/2 with sin(T) < 1 on this platform's libm (bisection; sin is 1.0 from there up to fl(pi/2))"""
    if not _SIN_T:
        lo, hi = math.pi / 2 - 1.0e-7, math.pi / 2
        assert math.sin(lo) < 1.0 and math.sin(hi) == 1.0
        while np.nextafter(lo, 4.0) < hi:
            mid = lo + (hi - lo) / 2
            if math.sin(mid) < 1.0:
                lo = mid
            else:
                hi = mid
        _SIN_T.append(float(lo))
    return _SIN_T[0]


def fp_to_float(v):
    """python float of a z3 FP numeral (exact)"""
    if v.isNaN():
        return math.nan
    if v.isInf():
        return -math.inf if v.isNegative() else math.inf
    if v.isZero():
        return -0.0 if v.isNegative() else 0.0
    sig = fractions.Fraction(v.significand_as_long(), 2 ** (v.sbits() - 1))
    if not v.isSubnormal():
        sig += 1
        exp = v.exponent_as_long(biased=False)
    else:
        exp = 1 - (2 ** (v.ebits() - 1) - 1)
    x = float(sig * fractions.Fraction(2) ** exp)
    return -x if v.isNegative() else x


def fite(cond, a, b):
    c = cond.e if isinstance(cond, SB) else z3.BoolVal(bool(cond))
    return SF(z3.If(c, fpval(a), fpval(b)))


def fpsym(name):
    return SF(z3.FP(name, F64))


def fparr(name, shape):
    if isinstance(shape, int):
        shape = (shape,)
    a = np.empty(shape, dtype=object)
    for idx in np.ndindex(*shape):
        a[idx] = fpsym(name + "_" + "_".join(map(str, idx)))
    return a.view(symx.SArr)


def finite(x):
    """SB: x is neither NaN nor infinite"""
    return SB(z3.And(z3.Not(z3.fpIsNaN(x.e)), z3.Not(z3.fpIsInf(x.e))))
