"""world -- a cooperative simulated MPI world (fake `mpi4py`) for running the real MPI branches of yaw.

Each rank is a Python thread running the real entry point; exactly one thread runs at a time; a thread reaching a
communication primitive parks there.  When all threads are parked the scheduler fires deterministic completions
first (eager sends, receives from a named source, complete collectives) and only then -- at quiescence, where the
candidate set of a wildcard receive is maximal -- asks `choose` which sender a wildcard receive matches.
Semantics assumed (MPI standard): non-overtaking per (sender, receiver, tag, communicator); a standard-mode send may
complete before a matching receive is posted (eager=True) or only together with it (eager=False); collectives
complete when all members of the communicator have entered.  Objects are passed through pickle (copy semantics).
No enabled completion while some rank is unfinished = deadlock.
"""
import threading, sys, types, itertools, pickle
def cp(o): return pickle.loads(pickle.dumps(o))
class Deadlock(Exception): pass
ANY = -1; UNDEFINED = -32766

class World:
    def __init__(self, size, choose, eager=True):
        self.size, self.choose, self.eager = size, choose, eager
        self.local = threading.local(); self.pending = {}; self.mail = []
        self.done = set(); self.errors = {}; self.results = {}
        self.cv = threading.Condition(); self.running = None
        self.comm_ids = itertools.count(1); self.nchoices = 0
    def rank(self): return self.local.rank
    def _block(self, op):
        r = self.rank()
        with self.cv:
            op["ready"] = False; op["result"] = None; self.pending[r] = op
            self.running = None; self.cv.notify_all()
            while not op["ready"]: self.cv.wait()
        return op["result"]
    def run(self, target):
        def wrap(r):
            self.local.rank = r
            with self.cv:
                while self.running != r: self.cv.wait()
            try: self.results[r] = target(r)
            except BaseException as e: self.errors[r] = e
            with self.cv:
                self.done.add(r); self.running = None; self.cv.notify_all()
        for r in range(self.size): threading.Thread(target=wrap, args=(r,), daemon=True).start()
        for r in range(self.size): self._resume(r)
        while len(self.done) < self.size:
            det, choice = self._enabled()
            if det: det[0](); continue
            if not choice:
                raise Deadlock({r: {k: v for k, v in op.items() if k in ("kind", "src", "dst", "tag", "name", "comm")} for r, op in self.pending.items()})
            # choice: list of groups (one group per wildcard recv); POR: only first recv with >1 candidate
            grp = choice[0]
            if len(grp) > 1: self.nchoices += 1
            grp[self.choose(len(grp), 'wildcard_recv_match') if len(grp) > 1 else 0]()
        return self.results
    def _resume(self, r):
        with self.cv:
            self.running = r; self.cv.notify_all()
            while self.running is not None: self.cv.wait()
    def _complete(self, r, result=None):
        op = self.pending.pop(r); op["result"] = result; op["ready"] = True; self._resume(r)
    def _enabled(self):
        det, choice = [], []
        for r, op in list(self.pending.items()):
            if op["kind"] == "send" and self.eager and not op.get("posted"):
                op["posted"] = True; self.mail.append(op)
                return [lambda r=r: self._complete(r)], []
        for r, op in sorted(self.pending.items()):
            if op["kind"] != "recv": continue
            cands = {}
            for m in self.mail:
                if m["dst"] == r and m["tag"] == op["tag"] and m["comm"] == op["comm"] and op["src"] in (ANY, m["src"]):
                    cands.setdefault(m["src"], m)
            if not self.eager:
                for s, sop in self.pending.items():
                    if sop["kind"] == "send" and sop["dst"] == r and sop["tag"] == op["tag"] and sop["comm"] == op["comm"] and op["src"] in (ANY, s):
                        cands.setdefault(s, sop)
            acts = []
            for s, m in sorted(cands.items()):
                def fire(r=r, m=m, s=s):
                    if any(x is m for x in self.mail): self.mail[:] = [x for x in self.mail if x is not m]; self._complete(r, m["obj"])
                    else: self._complete(r, m["obj"]); self._complete(s)
                acts.append(fire)
            if op["src"] != ANY and acts: det.append(acts[0])
            elif acts: choice.append(acts)
        # collectives per communicator
        bycomm = {}
        for r, op in self.pending.items():
            if op["kind"] == "coll": bycomm.setdefault((op["comm"], op["name"]), []).append(r)
        for (cid, name), ranks in bycomm.items():
            members = self.pending[ranks[0]]["members"]
            if set(ranks) == set(members):
                def fire(ranks=ranks, name=name, members=members):
                    ops = {r: self.pending[r] for r in ranks}
                    root = members[ops[ranks[0]]["root"]] if ops[ranks[0]]["root"] is not None else None
                    if name == "bcast": res = {r: (ops[root]["value"] if r == root else cp(ops[root]["value"])) for r in ranks}
                    elif name == "gather": res = {r: ([cp(ops[m]["value"]) for m in members] if r == root else None) for r in ranks}
                    elif name == "Bcast":
                        src = ops[root]["value"]
                        for r in ranks:
                            if r != root: ops[r]["value"][...] = src
                        res = {r: None for r in ranks}
                    elif name == "split":
                        groups = {}
                        for m in members: groups.setdefault(ops[m]["value"][0], []).append((ops[m]["value"][1], m))
                        res = {}
                        for color, lst in groups.items():
                            mem = tuple(m for _, m in sorted(lst)); cid2 = next(self.comm_ids)
                            for m in mem: res[m] = None if color == UNDEFINED else Comm(self, mem, cid2)
                    else: res = {r: None for r in ranks}
                    for r in sorted(ranks): self._complete(r, res[r])
                det.append(fire)
        return det, choice

def _rebuild_comm(members, cid):
    return Comm(WorldProxy.cur, members, cid)


class Comm:
    def __init__(self, world, members, cid): self.w, self.members, self.cid = world, tuple(members), cid
    def __reduce__(self): return (_rebuild_comm, (self.members, self.cid))  # communicator handles travel by reference
    def Get_size(self): return len(self.members)
    def Get_rank(self): return self.members.index(self.w.rank())
    def send(self, obj, dest, tag=0): self.w._block(dict(kind="send", obj=cp(obj), dst=self.members[dest], src=self.w.rank(), tag=tag, comm=self.cid))
    def recv(self, source=ANY, tag=0): return self.w._block(dict(kind="recv", src=(ANY if source == ANY else self.members[source]), dst=self.w.rank(), tag=tag, comm=self.cid))
    def _coll(self, name, value=None, root=None): return self.w._block(dict(kind="coll", name=name, value=value, root=root, comm=self.cid, members=self.members))
    def Barrier(self): self._coll("barrier")
    def bcast(self, value, root=0): return self._coll("bcast", value, root)
    def Bcast(self, array, root=0): self._coll("Bcast", array, root); return array
    def gather(self, value, root=0): return self._coll("gather", value, root)
    def Split(self, color, key): return self._coll("split", (color, key))
    def Free(self): pass

class WorldProxy:
    """COMM_WORLD bound at import; dispatches to the current world"""
    cur = None
    def __reduce__(self): return (WorldProxy, ())
    def __getattr__(self, k): return getattr(Comm(WorldProxy.cur, range(WorldProxy.cur.size), 0), k)

def install():
    MPI = types.SimpleNamespace(COMM_WORLD=WorldProxy(), ANY_SOURCE=ANY, UNDEFINED=UNDEFINED, Get_processor_name=lambda: "node0")
    m = types.ModuleType("mpi4py"); m.MPI = MPI; sys.modules["mpi4py"] = m; sys.modules["mpi4py.MPI"] = MPI
    return MPI
