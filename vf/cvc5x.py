"""Second-opinion back end: export to SMT-LIB2 and ask the cvc5 Python wheel / binary."""
from __future__ import annotations

import os
import subprocess
import tempfile
import time

import z3


def check(assertions, timeout_ms):
    """returns ('unsat'|'sat'|'unknown', seconds).  Only 'unsat' is ever trusted by callers."""
    s = z3.Solver()
    s.add(*assertions)
    text = "(set-logic ALL)\n" + s.to_smt2()
    t = time.time()
    fd, path = tempfile.mkstemp(suffix=".smt2", dir=os.environ.get("VF_SCRATCH", None))
    try:
        with os.fdopen(fd, "w") as f:
            f.write(text)
        try:
            out = subprocess.run(
                ["cvc5", "--tlimit=%d" % timeout_ms, path], capture_output=True, text=True, timeout=timeout_ms / 1000 + 10
            ).stdout
        except (subprocess.TimeoutExpired, FileNotFoundError):
            return "unknown", time.time() - t
    finally:
        try:
            os.unlink(path)
        except OSError:
            pass
    dt = time.time() - t
    if "(error" in out:
        return "unknown", dt
    first = out.strip().splitlines()[0] if out.strip() else ""
    if first in ("unsat", "sat"):
        return first, dt
    return "unknown", dt


# ---- float64 goals: cvc5 is the primary back end (z3's bit-blaster is an order of magnitude slower on binary64 products) ----
class ConstModel:
    """model given as values of constants; evaluates terms by substitution + simplification"""

    def __init__(self, pairs):
        self.pairs = pairs

    def eval(self, e, model_completion=True):
        if not self.pairs:
            return z3.simplify(e)
        return z3.simplify(z3.substitute(e, *self.pairs))


def _parse_fp(tok, sort):
    import re
    import struct

    tok = tok.strip()
    m = re.match(r"\(fp\s+(#[bx][0-9a-fA-F]+)\s+(#[bx][0-9a-fA-F]+)\s+(#[bx][0-9a-fA-F]+)\s*\)", tok)
    if m:
        def bits(t, n):
            v = int(t[2:], 2 if t[1] == "b" else 16)
            return format(v, "0%db" % n)

        word = bits(m.group(1), 1) + bits(m.group(2), sort.ebits()) + bits(m.group(3), sort.sbits() - 1)
        if sort.ebits() == 11 and sort.sbits() == 53:
            x = struct.unpack(">d", int(word, 2).to_bytes(8, "big"))[0]
            if x != x:
                return z3.fpNaN(sort)
            if x in (float("inf"), float("-inf")):
                return z3.fpInfinity(sort, x < 0)
            if x == 0:
                return z3.fpZero(sort, word[0] == "1")
            return z3.FPVal(x, sort)
        return None
    m = re.match(r"\(_\s+([+-]zero|[+-]oo|NaN)\s+\d+\s+\d+\)", tok)
    if m:
        k = m.group(1)
        return {"+zero": z3.fpZero(sort, False), "-zero": z3.fpZero(sort, True), "+oo": z3.fpInfinity(sort, False),
                "-oo": z3.fpInfinity(sort, True), "NaN": z3.fpNaN(sort)}[k]
    return None


def check_fp(assertions, timeout_ms, consts=()):
    """QF_UFFP goal -> ('unsat'|'sat'|'unknown', model or None, seconds); the model gives the float constants `consts`"""
    s = z3.Solver()
    s.add(*assertions)
    consts = [c for c in consts if z3.is_fp(c)]
    text = "(set-option :produce-models true)\n(set-logic ALL)\n" + s.to_smt2()
    for c in consts:
        text += "(get-value (%s))\n" % c.sexpr()
    t = time.time()
    fd, path = tempfile.mkstemp(suffix=".smt2", dir=os.environ.get("VF_SCRATCH", None))
    try:
        with os.fdopen(fd, "w") as f:
            f.write(text)
        try:
            out = subprocess.run(["cvc5", "--tlimit=%d" % timeout_ms, path], capture_output=True, text=True,
                                 timeout=timeout_ms / 1000 + 15).stdout
        except (subprocess.TimeoutExpired, FileNotFoundError):
            return "unknown", None, time.time() - t
    finally:
        try:
            os.unlink(path)
        except OSError:
            pass
    dt = time.time() - t
    lines = out.strip().splitlines()
    first = lines[0].strip() if lines else ""
    if first == "unsat":
        return "unsat", None, dt
    if first != "sat" or any("(error" in ln for ln in lines[:1]):
        return "unknown", None, dt
    pairs = []
    body = "\n".join(lines[1:])
    for c in consts:
        name = c.sexpr()
        i = body.find("((" + name + " ")
        if i < 0:
            return "unknown", None, dt
        j = i + len(name) + 3
        depth, k = 0, j
        while k < len(body):
            if body[k] == "(":
                depth += 1
            elif body[k] == ")":
                if depth == 0:
                    break
                depth -= 1
                if depth == 0:
                    k += 1
                    break
            k += 1
        val = _parse_fp(body[j:k], c.sort())
        if val is None:
            return "unknown", None, dt
        pairs.append((c, val))
    return "sat", ConstModel(pairs), dt
