"""Second-opinion back end: export to SMT-LIB2 and ask the cvc5 Python wheel / binary."""
from __future__ import annotations

import os
import subprocess
import tempfile
import time

import z3


def check(assertions, timeout_ms):
    """returns ('unsat'|'sat'|'unknown', seconds).  Only 'unsat' is ever trusted by callers."""
    s = z3.Solver()
    s.add(*assertions)
    text = "(set-logic ALL)\n" + s.to_smt2()
    t = time.time()
    fd, path = tempfile.mkstemp(suffix=".smt2", dir=os.environ.get("VF_SCRATCH", None))
    try:
        with os.fdopen(fd, "w") as f:
            f.write(text)
        try:
            out = subprocess.run(
                ["cvc5", "--tlimit=%d" % timeout_ms, path], capture_output=True, text=True, timeout=timeout_ms / 1000 + 10
            ).stdout
        except (subprocess.TimeoutExpired, FileNotFoundError):
            return "unknown", time.time() - t
    finally:
        try:
            os.unlink(path)
        except OSError:
            pass
    dt = time.time() - t
    if "(error" in out:
        return "unknown", dt
    first = out.strip().splitlines()[0] if out.strip() else ""
    if first in ("unsat", "sat"):
        return first, dt
    return "unknown", dt
