"""UFCosmology -- uninterpreted stand-in for an astropy FLRW / CustomCosmology.

Assumed contract: comoving_distance D_C is strictly increasing in z with D_C(0) = 0 (hence positive for z > 0);
angular_diameter_distance = D_C / (1 + z).  Nothing else is assumed (in particular D_A need not be monotone,
which is true of real cosmologies beyond z ~ 1.6).  z_at_value(D_C, d) is the inverse of D_C.
"""
from __future__ import annotations

import numpy as np
import z3

from vf.symx import SV, Engine, R, sarr, zval, _is_int


class UFCosmology:
    def __init__(self, name="DC"):
        self.fname = name
        self.f = z3.Function(name, R, R)
        self.inv = z3.Function(name + "_inv", R, R)
        self.name = name

    def _app(self, z):
        eng = Engine.cur
        a = zval(z)
        if _is_int(a):
            a = z3.ToReal(a)
        apps = eng.uf_apps.setdefault("cosmo:" + self.fname, [])
        if not any(b.eq(a) for b in apps):
            if not apps:
                zero = z3.RealVal(0)
                apps.append(zero)
                eng.add_axiom(self.f(zero) == 0)
            for b in apps:
                eng.add_axiom(z3.And((a < b) == (self.f(a) < self.f(b)), (b < a) == (self.f(b) < self.f(a))))
            apps.append(a)
            for d in eng.uf_apps.get("cosmoinv:" + self.fname, []):
                eng.add_axiom(z3.Implies(d == self.f(a), self.inv(d) == a))
                eng.add_axiom(z3.Implies(a == self.inv(d), self.f(a) == d))
        return SV(self.f(a))

    def comoving_distance(self, z):
        if isinstance(z, (list, tuple, np.ndarray)):
            return sarr([self._app(v) for v in np.asarray(z, dtype=object).ravel()])
        return self._app(z)

    def angular_diameter_distance(self, z):
        if isinstance(z, (list, tuple, np.ndarray)):
            zs = np.asarray(z, dtype=object).ravel()
            return sarr([self._app(v) / (1.0 + v) for v in zs])
        return self._app(z) / (1.0 + z)

    def z_at_distance(self, d):
        """inverse of comoving_distance (used by the z_at_value stub)"""
        eng = Engine.cur
        a = zval(d)
        invs = eng.uf_apps.setdefault("cosmoinv:" + self.fname, [])
        if not any(b.eq(a) for b in invs):
            invs.append(a)
            eng.add_axiom(z3.Implies(a >= 0, self.f(self.inv(a)) == a))
            for zz in eng.uf_apps.get("cosmo:" + self.fname, []):
                eng.add_axiom(z3.Implies(a == self.f(zz), self.inv(a) == zz))
            # register the result as an argument of f so that monotonicity is instantiated
            self._app(SV(self.inv(a)))
        return SV(self.inv(a))

    def table(self, m):
        """(z, D_C) pairs of this cosmology's applications under model m -- for building a concrete replay cosmology"""
        from vf.symx import model_value

        eng_apps = getattr(self, "_apps_snapshot", None)
        out = []
        for a in eng_apps or []:
            out.append((float(model_value(m, a)), float(model_value(m, self.f(a)))))
        return sorted(set(out))


class TableCosmology:
    """monotone piecewise-linear D_C through a table of (z, D_C) points; a valid concrete cosmology for replays"""

    def __init__(self, table):
        pts = sorted(set([(0.0, 0.0)] + [(float(z), float(d)) for z, d in table if z > 0]))
        self.z = np.array([p[0] for p in pts])
        self.d = np.array([p[1] for p in pts])

    def comoving_distance(self, z):
        z = np.asarray(z, dtype=float)
        if len(self.z) < 2:
            return 3000.0 * z
        slope = (self.d[-1] - self.d[-2]) / (self.z[-1] - self.z[-2])
        return np.where(z <= self.z[-1], np.interp(z, self.z, self.d), self.d[-1] + slope * (z - self.z[-1]))

    def angular_diameter_distance(self, z):
        z = np.asarray(z, dtype=float)
        return self.comoving_distance(z) / (1.0 + z)
