"""fsmodel -- an in-memory file system standing in for pathlib.Path / open / shutil.rmtree / ndarray.tofile /
np.fromfile / pickle inside the analysed yaw modules.

Assumed contract
* a directory is a set of named entries, a file is the sequence of *items* written to it (bytes, text, array chunks,
  pickled objects); reading returns exactly what was written (no decoding is modelled);
* every mutating call is one numbered operation: mkdir, create (open for writing: the file exists and is empty /
  truncated), commit (close or flush of buffered writes), unlink, rmdir;
* crash model = process kill: completed operations persist in order; buffered but uncommitted writes of an open file
  may survive as ANY PREFIX (item granularity plus a partially written last array item), chosen by the engine;
  no power-loss reordering.
"""
from __future__ import annotations

import copy

import numpy as np

from vf.symx import PathAbort, SArr


class Crash(PathAbort):
    """the simulated process died at this operation"""


class File:
    def __init__(self):
        self.items = []  # committed content

    def clone(self):
        f = File()
        f.items = list(self.items)
        return f


class Dir:
    pass


class FS:
    def __init__(self):
        self.nodes = {"/": Dir()}
        self.ops = 0
        self.crash_at = None
        self.log = []
        self.open_files = []
        self.crashed = False
        self.chooser = None  # callable(n, label) -> int for post-crash prefix choices
        self.read_log = []

    # ---- bookkeeping ------------------------------------------------
    def clone(self):
        new = FS()
        new.nodes = {k: (v.clone() if isinstance(v, File) else Dir()) for k, v in self.nodes.items()}
        return new

    def op(self, kind, path):
        if self.crash_at is not None and self.ops == self.crash_at:
            self.crashed = True
            self._settle_open_files()
            raise Crash("%s %s" % (kind, path))
        self.log.append((self.ops, kind, path))
        self.ops += 1

    def _settle_open_files(self):
        """a killed process: buffered writes survive as a prefix chosen by the engine"""
        for fh in list(self.open_files):
            if fh.pending and fh.node is not None:
                n = len(fh.pending)
                keep = self.chooser(n + 1, "flushed_items") if self.chooser else 0
                kept = fh.pending[:keep]
                if keep < n and self.chooser is not None:
                    nxt = fh.pending[keep]
                    if isinstance(nxt, tuple) and nxt[0] == "array" and len(nxt[1]) > 1:
                        part = self.chooser(len(nxt[1]), "partial_array_len")
                        if part > 0:
                            kept = kept + [("array", nxt[1][:part])]
                fh.node.items.extend(kept)
            fh.pending = []
        self.open_files = []

    def path(self, p):
        return FakePath(self, str(p))

    # ---- inspection helpers for oracles -------------------------------
    def listing(self):
        return sorted(self.nodes)

    def file_items(self, p):
        n = self.nodes.get(str(p))
        return None if not isinstance(n, File) else list(n.items)


def _norm(p):
    parts = [x for x in str(p).split("/") if x]
    return "/" + "/".join(parts)


class FakePath:
    def __init__(self, fs, p):
        self.fs = fs
        self.p = _norm(p)

    # path algebra
    def __truediv__(self, other):
        return FakePath(self.fs, self.p + "/" + str(other))

    def __str__(self):
        return self.p

    __fspath__ = __str__

    def __repr__(self):
        return "FakePath(%r)" % self.p

    def __eq__(self, o):
        return isinstance(o, FakePath) and o.p == self.p

    def __hash__(self):
        return hash(self.p)

    @property
    def name(self):
        return self.p.rsplit("/", 1)[1]

    @property
    def parent(self):
        return FakePath(self.fs, self.p.rsplit("/", 1)[0] or "/")

    def with_suffix(self, suffix):
        head, name = self.p.rsplit("/", 1)
        stem = name.rsplit(".", 1)[0] if "." in name else name
        return FakePath(self.fs, head + "/" + stem + suffix)

    # queries
    def exists(self):
        self.fs.read_log.append(("exists", self.p))
        return self.p in self.fs.nodes

    def is_dir(self):
        return isinstance(self.fs.nodes.get(self.p), Dir)

    def is_file(self):
        return isinstance(self.fs.nodes.get(self.p), File)

    def iterdir(self):
        pre = self.p.rstrip("/") + "/"
        return [FakePath(self.fs, k) for k in sorted(self.fs.nodes) if k.startswith(pre) and "/" not in k[len(pre):]]

    def glob(self, pattern):
        import fnmatch

        return [k for k in self.iterdir() if fnmatch.fnmatchcase(k.name, pattern)]

    def samefile(self, other):
        return str(self) == str(other)

    @property
    def suffix(self):
        n = self.name
        return "." + n.rsplit(".", 1)[1] if "." in n else ""

    @property
    def stem(self):
        n = self.name
        return n.rsplit(".", 1)[0] if "." in n else n

    # mutations
    def mkdir(self, mode=0o777, parents=False, exist_ok=False):
        if self.p in self.fs.nodes:
            if exist_ok and self.is_dir():
                return
            raise FileExistsError(self.p)
        par = self.parent
        if par.p not in self.fs.nodes:
            if not parents:
                raise FileNotFoundError(par.p)
            par.mkdir(parents=True)
        elif not par.is_dir():
            raise NotADirectoryError(par.p)
        self.fs.op("mkdir", self.p)
        self.fs.nodes[self.p] = Dir()

    def unlink(self, missing_ok=False):
        if not self.is_file():
            if missing_ok and self.p not in self.fs.nodes:
                return
            raise FileNotFoundError(self.p)
        self.fs.op("unlink", self.p)
        del self.fs.nodes[self.p]

    def rmdir(self):
        if not self.is_dir():
            raise NotADirectoryError(self.p)
        if self.iterdir():
            raise OSError("directory not empty: " + self.p)
        self.fs.op("rmdir", self.p)
        del self.fs.nodes[self.p]

    def open(self, mode="r", *a, **k):
        return fake_open(self, mode)

    def replace(self, target):
        """os.replace: atomic rename over the target"""
        target = target if isinstance(target, FakePath) else FakePath(self.fs, str(target))
        if self.p not in self.fs.nodes:
            raise FileNotFoundError(self.p)
        self.fs.op("rename", self.p + " -> " + target.p)
        self.fs.nodes[target.p] = self.fs.nodes.pop(self.p)
        return target

    rename = replace

    def read_text(self):
        with self.open() as f:
            return f.read()


def fake_open(path, mode="r", *a, **k):
    if not isinstance(path, FakePath):
        raise TypeError("fsmodel: open() of a non-model path %r" % (path,))
    fs = path.fs
    node = fs.nodes.get(path.p)
    if isinstance(node, Dir):
        raise IsADirectoryError(path.p)
    if "r" in mode and "+" not in mode:
        if node is None:
            raise FileNotFoundError(path.p)
        return FakeFile(fs, path, node, mode)
    if not path.parent.is_dir():
        raise FileNotFoundError(path.parent.p)
    if "w" in mode or node is None:
        if "x" in mode and node is not None:
            raise FileExistsError(path.p)
        fs.op("create", path.p)
        node = File()
        fs.nodes[path.p] = node
    return FakeFile(fs, path, node, mode)


class RawBytes:
    """result of np.fromfile(f, dtype=byte): the remaining array items of the file, re-interpreted by .view(dtype)"""

    def __init__(self, chunks):
        self.chunks = chunks

    def view(self, dtype):
        dtype = np.dtype(dtype)
        if not self.chunks:
            return np.empty(0, dtype=dtype)
        for c in self.chunks:
            if c.dtype.names != dtype.names:
                raise ValueError("fsmodel: stored record layout %s read back as %s" % (c.dtype.names, dtype.names))
        out = np.concatenate([np.asarray(c) for c in self.chunks])
        return out.view(SArr) if out.dtype.hasobject or out.dtype == object else out

    def __len__(self):
        return sum(len(c) for c in self.chunks)


class FakeFile:
    def __init__(self, fs, path, node, mode):
        self.fs, self.path, self.node, self.mode = fs, path, node, mode
        self.pending = []
        self.pos = 0  # index into items for reading
        self.byte_off = 0
        self.closed = False
        self.writable = any(c in mode for c in "wax+")
        if self.writable:
            fs.open_files.append(self)

    def __enter__(self):
        return self

    def __exit__(self, et, ev, tb):
        if et is not None and issubclass(et, Crash):
            return False
        self.close()
        return False

    # ---- writing --------------------------------------------------------
    def write(self, data):
        if not self.writable:
            raise OSError("not writable")
        kind = "text" if isinstance(data, str) else "bytes"
        self.pending.append((kind, data))
        return len(data)

    def write_array(self, arr):
        self.pending.append(("array", arr.copy()))

    def write_object(self, obj):
        self.pending.append(("pickle", obj))

    def flush(self):
        if self.pending:
            self.fs.op("commit", self.path.p)
            self.node.items.extend(self.pending)
            self.pending = []

    def close(self):
        if self.closed:
            return
        if self.writable:
            self.flush()
            if self in self.fs.open_files:
                self.fs.open_files.remove(self)
        self.closed = True

    # ---- reading --------------------------------------------------------
    def _items(self):
        return self.node.items

    def read(self, n=-1):
        items = self._items()
        if "b" in self.mode:
            out = b""
            while self.pos < len(items) and (n < 0 or len(out) < n):
                kind, data = items[self.pos]
                if kind != "bytes":
                    if n < 0:
                        raise ValueError("fsmodel: read() across a non-bytes item")
                    break
                take = data[self.byte_off:] if n < 0 else data[self.byte_off: self.byte_off + (n - len(out))]
                out += take
                self.byte_off += len(take)
                if self.byte_off >= len(data):
                    self.pos += 1
                    self.byte_off = 0
            return out
        text = "".join(d for k, d in items[self.pos:] if k == "text")
        self.pos = len(items)
        return text

    def readline(self):
        if not hasattr(self, "_lines"):
            from vf.fmtstr import join_text

            self._lines = join_text([d for k, d in self._items() if k == "text"]).splitlines(keepends=True)
            self._lineno = 0
        if self._lineno >= len(self._lines):
            return ""
        line = self._lines[self._lineno]
        self._lineno += 1
        return line

    def __iter__(self):
        while True:
            line = self.readline()
            if not line:
                return
            yield line

    def read_arrays(self):
        items = self._items()
        chunks = []
        if self.byte_off:
            raise ValueError("fsmodel: array read in the middle of a bytes item")
        while self.pos < len(items):
            kind, data = items[self.pos]
            if kind != "array":
                raise ValueError("fsmodel: fromfile over a %s item" % kind)
            chunks.append(data)
            self.pos += 1
        return chunks

    def read_object(self):
        items = self._items()
        if self.pos >= len(items):
            raise EOFError("Ran out of input")
        kind, data = items[self.pos]
        if kind != "pickle":
            import pickle

            raise pickle.UnpicklingError("fsmodel: not a pickle item")
        self.pos += 1
        return data


# ---- module-level stand-ins ---------------------------------------------------------------------------------
def fromfile(file, dtype=float, count=-1, sep="", offset=0, **k):
    if isinstance(file, FakePath):
        with file.open("rb") as f:
            return fromfile(f, dtype=dtype)
    if not isinstance(file, FakeFile):
        return np.fromfile(file, dtype=dtype, count=count, sep=sep, offset=offset)
    chunks = file.read_arrays()
    if np.dtype(dtype) == np.dtype(np.byte):
        return RawBytes(chunks)
    if not chunks:
        return np.empty(0, dtype=dtype)
    out = np.concatenate([np.asarray(c).ravel() for c in chunks])
    if out.dtype == object:
        return out.view(SArr)
    return out.astype(dtype)


def tofile(arr, fid, sep="", format="%s"):
    if isinstance(fid, FakePath):
        with fid.open("wb") as f:
            f.write_array(np.asarray(arr))
        return
    if isinstance(fid, FakeFile):
        fid.write_array(np.asarray(arr))
        return
    np.ndarray.tofile(np.asarray(arr), fid, sep=sep, format=format)


class FakePickle:
    HIGHEST_PROTOCOL = 5
    import pickle as _p

    UnpicklingError = _p.UnpicklingError
    PickleError = _p.PickleError

    @staticmethod
    def dump(obj, f, *a, **k):
        if isinstance(f, FakeFile):
            f.write_object(obj)
        else:
            import pickle

            pickle.dump(obj, f, *a, **k)

    @staticmethod
    def load(f, *a, **k):
        if isinstance(f, FakeFile):
            return f.read_object()
        import pickle

        return pickle.load(f, *a, **k)

    @staticmethod
    def dumps(obj, *a, **k):
        import pickle

        return pickle.dumps(obj, *a, **k)

    @staticmethod
    def loads(b, *a, **k):
        import pickle

        return pickle.loads(b, *a, **k)


def rmtree(path, *a, **k):
    """shutil.rmtree: entries are removed one by one (children before parents); the order among siblings is an
    engine choice between ascending and descending name order"""
    if not isinstance(path, FakePath):
        raise TypeError("fsmodel: rmtree of a non-model path")
    fs = path.fs
    if not path.is_dir():
        raise NotADirectoryError(path.p)
    rev = bool(fs.chooser(2, "rmtree_order")) if fs.chooser else False

    def rec(d):
        kids = d.iterdir()
        if rev:
            kids = kids[::-1]
        for k2 in kids:
            if k2.is_dir():
                rec(k2)
            else:
                k2.unlink()
        d.rmdir()

    rec(path)


def make_path_class(fs):
    """a callable standing in for pathlib.Path inside a module: Path(x) -> FakePath"""

    def Path(p):
        if isinstance(p, FakePath):
            return p
        return FakePath(fs, str(p))

    return Path


def loadtxt(path, *a, **k):
    """np.loadtxt over the model: the text items of the file are parsed by the real numpy.loadtxt"""
    import io

    if not isinstance(path, FakePath):
        return np.loadtxt(path, *a, **k)
    with path.open() as f:
        text = f.read()
    from vf import fmtstr

    if fmtstr.has_tokens(text):
        return fmtstr.loadtxt_symbolic(text, **k)
    import warnings

    with warnings.catch_warnings():
        warnings.simplefilter("ignore")
        return np.loadtxt(io.StringIO(text), *a, **k)
