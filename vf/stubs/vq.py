"""spec_vq -- specification stand-in for scipy.cluster.vq.vq.

Assumed contract: code[i] = index of the centre with the smallest Euclidean distance to observation i (lowest index on
ties), dist[i] that distance.  Squared distances are compared with forking comparisons (the solver decides the order).
"""
from __future__ import annotations

import numpy as np

from vf.symx import SV, sarr


def vq(obs, code_book, check_finite=True):
    obs = np.asarray(obs, dtype=object)
    cb = np.asarray(code_book, dtype=object)
    codes = np.empty(len(obs), dtype=np.int32)
    dists = []
    for i in range(len(obs)):
        best, bestd = 0, None
        for j in range(len(cb)):
            d2 = sum(((obs[i][k] - cb[j][k]) * (obs[i][k] - cb[j][k]) for k in range(obs.shape[1])), 0)
            if bestd is None or bool(d2 < bestd):
                best, bestd = j, d2
        codes[i] = best
        dists.append(bestd)
    return codes, sarr(dists)
