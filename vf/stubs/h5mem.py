"""h5mem -- in-memory stand-in for h5py groups/datasets.

Assumed contract: a group is a mapping name -> group | dataset; a dataset returns exactly the array / scalar stored;
a stored python str is read back as bytes (h5py's variable-length string behaviour), a bool as numpy.bool_, an int as
numpy integer.  Compression / checksum keyword arguments are ignored.
"""
from __future__ import annotations

import numpy as np

from vf.symx import SArr


class H5Dataset:
    def __init__(self, data):
        if isinstance(data, str):
            self.kind, self.data = "str", data
        elif isinstance(data, (bool, np.bool_)):
            self.kind, self.data = "scalar", np.bool_(data)
        elif isinstance(data, (int, np.integer)):
            self.kind, self.data = "scalar", np.int64(data)
        elif isinstance(data, (float, np.floating)):
            self.kind, self.data = "scalar", np.float64(data)
        else:
            arr = np.asarray(data)
            self.kind = "array" if arr.ndim else "scalar"
            self.data = arr.copy()
        self.attrs = {}

    def __getitem__(self, key):
        if self.kind == "str":
            if key != ():
                raise TypeError("h5mem: string dataset indexed with %r" % (key,))
            return self.data.encode("utf-8")
        if self.kind == "scalar":
            if key != ():
                raise ValueError("h5mem: scalar dataset indexed with %r" % (key,))
            return self.data if not isinstance(self.data, np.ndarray) else self.data[()]
        out = self.data[key]
        if isinstance(out, np.ndarray):
            out = out.copy()
            if out.dtype == object:
                out = out.view(SArr)
        return out

    def __len__(self):
        return len(self.data)

    @property
    def shape(self):
        return np.shape(self.data)

    def __array__(self, dtype=None, copy=None):
        return np.asarray(self.data)

    def __iter__(self):
        return iter(self.data)


class H5Group(dict):
    def __init__(self):
        super().__init__()
        self.attrs = {}

    def create_group(self, name):
        if name in self:
            raise ValueError("Unable to create group (name already exists)")
        g = H5Group()
        self[name] = g
        return g

    def create_dataset(self, name, data=None, **kw):
        if name in self:
            raise ValueError("Unable to create dataset (name already exists)")
        d = H5Dataset(data)
        self[name] = d
        return d
