"""rngstream -- stand-in for numpy's SeedSequence / default_rng inside yaw.randoms.

Assumed contract: a generator is a deterministic stream determined by (entropy, spawn index); the k-th draw call of a
stream returns values that are a function of (stream, k, position) only.  uniform(lo, hi) lies in [lo, hi) (== lo when
lo == hi); integers(lo, hi) lies in [lo, hi).  SeedSequence.spawn(n) hands out children with consecutive spawn indices
(a second spawn() on the SAME object yields different children -- as in numpy).
Draws are fresh symbols NAMED by (stream, k, position): two runs of the same stream produce identical terms.
integers() values are engine choices (concrete per path) named the same way, so that fancy indexing stays concrete.
"""
from __future__ import annotations

import numpy as np
import z3

from vf.symx import SV, Engine, sarr


class FakeSeedSequence:
    def __init__(self, entropy=None):
        self.entropy = entropy
        self.spawned = 0

    def spawn(self, n):
        kids = [("%s" % (self.entropy,), self.spawned + i) for i in range(n)]
        self.spawned += n
        return kids


class FakeGenerator:
    def __init__(self, stream):
        self.stream = stream if isinstance(stream, tuple) else ("%s" % (stream,), -1)
        self.k = 0
        self.log = []

    def _name(self, pos):
        return "rng[%s|%d]#%d@%d" % (self.stream[0], self.stream[1], self.k, pos)

    def uniform(self, low=0.0, high=1.0, size=None):
        eng = Engine.cur
        n = 1 if size is None else int(size)
        out = []
        for i in range(n):
            u = SV(z3.Real(self._name(i)))
            eng.assume((u >= low) & (((u < high) & (low < high)) | ((u == low) & (low == high))))
            out.append(u)
        self.log.append(("uniform", self.k, n))
        self.k += 1
        return out[0] if size is None else sarr(out)

    _choices = {}

    def integers(self, low, high=None, size=None, **kw):
        eng = Engine.cur
        if high is None:
            low, high = 0, low
        n = 1 if size is None else int(size)
        out = []
        for i in range(n):
            key = self._name(i)
            # the same (stream, draw, position) must give the same value within one path
            cache = eng.__dict__.setdefault("_rng_choices", {})
            tag = (id(eng.trace), key)
            if key in cache and cache[key][0] is eng.trace:
                v = cache[key][1]
            else:
                v = int(low) + eng.choose(int(high) - int(low), key)
                cache[key] = (eng.trace, v)
            out.append(v)
        self.log.append(("integers", self.k, n))
        self.k += 1
        return out[0] if size is None else np.array(out, dtype=np.int64)


class FakeRandomModule:
    SeedSequence = FakeSeedSequence

    @staticmethod
    def default_rng(seed=None):
        return FakeGenerator(seed)
