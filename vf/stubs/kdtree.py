"""SpecTree -- specification stand-in for scipy.spatial.KDTree.

Assumed contract (scipy documentation of KDTree.count_neighbors):
  cumulative=True : res[k] = sum_{i,j} w1_i * w2_j * [d_ij <= r_k]
  cumulative=False: res[0] as above, res[k] = sum w1_i w2_j [r_{k-1} < d_ij <= r_k]   (r increasing)
  weights=None counts 1 per point.  d_ij is the Euclidean distance of the stored 3-d points, or -- when the harness
  provides the pair separations directly -- the matrix `D` (chord lengths).
Built as ite-sums: no forking.
"""
from __future__ import annotations

import numpy as np
import z3

from vf.symx import SArr, SV, ite, sarr, zval


class SpecTree:
    def __init__(self, data=None, leafsize=16, copy_data=True, D=None):
        self.data = data
        self.n = len(data) if data is not None else (D.shape[0] if D is not None else 0)
        self.D = D  # optional: chord distances to the points of the `other` tree (n_self x n_other)
        self.leafsize = leafsize

    def _dist_le(self, other, i, j, r):
        if self.D is not None:
            return self.D[i, j] <= r
        a, b = self.data[i], other.data[j]
        d2 = sum(((a[k] - b[k]) * (a[k] - b[k]) for k in range(3)), 0)
        return (d2 <= r * r) & (r >= 0) if isinstance(r, SV) else (d2 <= r * r)

    def count_neighbors(self, other, r, p=2.0, weights=None, cumulative=True):
        r = np.atleast_1d(np.asarray(r, dtype=object))
        w1, w2 = (None, None) if weights is None else weights
        n1 = self.n
        n2 = other.n if self.D is None else self.D.shape[1]
        if w1 is not None and len(w1) != n1 or w2 is not None and len(w2) != n2:
            raise ValueError("weights do not match the tree sizes")
        out = []
        for k in range(len(r)):
            tot = 0.0
            for i in range(n1):
                for j in range(n2):
                    w = (w1[i] if w1 is not None else 1.0) * (w2[j] if w2 is not None else 1.0)
                    c = self._dist_le(other, i, j, r[k])
                    if not cumulative and k > 0:
                        c = c & ~self._dist_le(other, i, j, r[k - 1])
                    tot = tot + ite(c, w, 0.0)
            out.append(tot)
        res = sarr(out)
        return res
